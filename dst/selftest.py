"""Machinery self-tests: determinism and sensitivity.

    check.py selftest determinism [props...]     run N seeds twice, at 1/4/16 workers and under
                                                 another PYTHONHASHSEED, and diff the digests
    check.py selftest sensitivity [props...]     every in-memory mutant must be caught by its check
"""
import json
import os
import subprocess
import sys
import time

HERE = os.path.dirname(os.path.abspath(__file__))
CHECK = os.path.join(HERE, "check.py")
OUT = os.path.join(os.path.dirname(HERE), "out")


def main(rest, seed, workers):
    if not rest:
        print(__doc__)
        return 2
    what, props = rest[0], rest[1:]
    if what == "sensitivity":
        return sensitivity(props, seed)
    if what == "determinism":
        return determinism(props, seed)
    if what == "digests":
        return digests(props, seed, workers)
    print(__doc__)
    return 2


def sensitivity(props, seed):
    sys.path.insert(0, os.path.dirname(HERE))
    from dst import mutants
    rows = []
    budget = os.environ.get("VERIF_SENS_BUDGET_S", "40")
    for name in sorted(mutants.MUTANTS):
        prop = mutants.MUTANTS[name][0]
        if props and prop not in props and name not in props:
            continue
        env = dict(os.environ, VERIF_BUDGET_S=budget, VERIF_SEED=str(seed))
        t0 = time.time()
        p = subprocess.run([sys.executable, CHECK, prop, "--tier", "quick", "--mutant", name, "--no-evidence"],
                           env=env, capture_output=True, text=True)
        dt = time.time() - t0
        vio = [ln for ln in p.stdout.splitlines() if ln.startswith("{") and '"oracle"' in ln]
        oracle = json.loads(vio[0])["oracle"] if vio else None
        rows.append({"mutant": name, "property": prop, "exit": p.returncode, "caught": p.returncode == 1,
                     "oracle": oracle, "wall_s": round(dt, 1)})
        print(f"{'CAUGHT' if p.returncode == 1 else 'MISSED':7} {name:42} {prop} exit={p.returncode} {oracle} {dt:.0f}s", flush=True)
        if p.returncode not in (0, 1):
            print(p.stdout[-600:], p.stderr[-600:])
    os.makedirs(OUT, exist_ok=True)
    with open(os.path.join(OUT, "sensitivity.json"), "w") as f:
        json.dump(rows, f, indent=1)
    missed = [r for r in rows if not r["caught"]]
    print(f"sensitivity: {len(rows) - len(missed)}/{len(rows)} mutants caught")
    return 1 if missed else 0


def _digests(prop, seed, n, workers, hashseed):
    env = dict(os.environ, PYTHONHASHSEED=str(hashseed), VERIF_SEED=str(seed), DST_HASHSEED_FIXED="1")
    p = subprocess.run([sys.executable, CHECK, "selftest", "digests", prop, str(n), "--workers", str(workers)],
                       env=env, capture_output=True, text=True)
    if p.returncode != 0:
        print(p.stdout[-1000:], p.stderr[-1000:])
        return None
    out = {}
    for ln in p.stdout.splitlines():
        if ln.startswith("D "):
            _, i, d = ln.split()
            out[int(i)] = d
    return out


def determinism(props, seed):
    sys.path.insert(0, os.path.dirname(HERE))
    from dst.registry import REGISTRY
    n = int(os.environ.get("VERIF_DET_RUNS", "600"))
    bad = 0
    for prop in (props or sorted(REGISTRY)):
        ref = _digests(prop, seed, n, 16, 0)
        if ref is None:
            print(f"{prop}: reference batch failed")
            bad += 1
            continue
        for (w, hs) in ((16, 0), (4, 0), (1, 0), (16, 12345)):
            nn = n if w > 1 else max(40, n // 8)
            got = _digests(prop, seed, nn, w, hs)
            if got is None:
                bad += 1
                continue
            diff = [i for i in got if ref.get(i) != got[i]]
            print(f"{prop}: {len(got)} runs at workers={w} PYTHONHASHSEED={hs}: {len(diff)} digests differ"
                  + (f" (e.g. run {diff[0]})" if diff else ""), flush=True)
            bad += len(diff)
    print("determinism:", "OK" if not bad else f"{bad} problems")
    return 0 if not bad else 2


def digests(args, seed, workers):
    """internal: print 'D <idx> <digest>' for the first n runs of a property"""
    sys.path.insert(0, os.path.dirname(HERE))
    from dst import core
    from dst.registry import REGISTRY
    import shutil
    prop, n = args[0], int(args[1])
    spec = REGISTRY[prop]
    root = f"/dev/shm/fibertree-dst-sel-{os.getpid()}"
    os.makedirs(root, exist_ok=True)
    res = {}
    try:
        b = core.Batch(spec["world"], prop, seed, "quick", workers, root)
        fails = b.run(n, 600, dup_every=0, on_result=lambda r: res.__setitem__(r["run_index"], r["digest"]))
    finally:
        shutil.rmtree(root, ignore_errors=True)
    for i in sorted(res):
        print("D", i, res[i])
    return 0 if not fails else 2
