"""ConvSim — the two clauses of C13 that depend on something outside the call's arguments:

  (d) seeded random construction reads the process-global PRNG  -> PRNG seam (fiber.random)
  (c) YAML dump/load goes through files                         -> file seam (tensor.open / fiber.open)

Events:
    ["perturb", {...}]      another consumer of the global generator (re-seed, burn draws, unseeded fromRandom)
    ["rand", {...}]         Fiber.fromRandom / Tensor.fromRandom with a seed; compared with earlier results of the same key
    ["build", {...}]        make an object to dump (explicit defaults, empty sub-fibers, rank-0, names)
    ["dump", {...}]         dump through the file seam, optionally aborted at file event n (torn predecessor)
    ["load", {...}]         load it back and compare with the original
"""
import os
import random as _random

import fibertree.core.fiber as MF
import fibertree.core.tensor as MTN
from fibertree import Fiber, Payload, Tensor

from .core import WorldBase, Violation
from . import observe as ob
from .simfs import SimFS, SimAbort
from .treesim import build_fiber


class Skip(Exception):
    pass


def _coord_types(f):
    """the nesting structure and element types of every coordinate in the tree"""
    def sig(c):
        return tuple(sig(x) for x in c) if isinstance(c, (tuple, list)) else type(c).__name__ \
            if not isinstance(c, (tuple, list)) else None

    def tsig(c):
        if isinstance(c, tuple):
            return ("tuple",) + tuple(tsig(x) for x in c)
        if isinstance(c, list):
            return ("list",) + tuple(tsig(x) for x in c)
        return type(c).__name__
    out = []

    def rec(g):
        for c, p in zip(g.coords, g.payloads):
            out.append(tsig(c))
            if isinstance(p, Fiber):
                rec(p)
    rec(f)
    return out


class _RandomShim:
    """what fiber.py sees as the `random` module: a simulator-owned generator"""

    def __init__(self):
        self.r = _random.Random(0)
        self.draws = 0
        self.seeds = 0

    def seed(self, *a, **k):
        self.seeds += 1
        return self.r.seed(*a, **k)

    def random(self):
        self.draws += 1
        return self.r.random()

    def randint(self, a, b):
        self.draws += 1
        return self.r.randint(a, b)

    def __getattr__(self, name):
        return getattr(self.r, name)


class ConvSim(WorldBase):
    name = "ConvSim"

    @classmethod
    def gen_config(cls, prop, rng, tier):
        return {"mode": rng.choice(["rand", "rand", "yaml", "yaml", "yaml", "nest"]), "max_events": 1500,
                "explicit": rng.choice([0.0, 0.2, 0.5])}

    def __init__(self, prop, cfg, scratch):
        super().__init__(prop, cfg, scratch)
        self.fs = SimFS()
        MTN.open = self.fs.open
        MF.open = self.fs.open
        self.rnd = _RandomShim()
        MF.random = self.rnd
        self.results = {}
        self.objs = {}
        self.q = None
        self.uniq = 10
        self.ndump = 0
        self.nrand = 0
        self.dump_events = {}
        self.dumped = {}
        self.cur_index = 0

    def V(self, prop, oracle, culprit, detail):
        if prop == self.prop:
            raise Violation(prop, oracle, culprit, detail)
        self.probe(f"foreign:{oracle}")

    # ------------------------------------------------------------------ generation
    def generate(self, streams):
        g = streams["gen"]
        if self.q is None:
            mode = self.cfg["mode"]
            self.q = self._plan_rand(g, streams["env"]) if mode == "rand" else \
                (self._plan_nest(g) if mode == "nest" else self._plan_yaml(g))
            self.stage = 0
        if self.q:
            return self.q.pop(0)
        if self.cfg["mode"] == "yaml" and self.stage == 0:
            self.stage = 1
            # every abort point of the preceding dump, then a clean dump over the torn file, then load
            for key, n in sorted(self.dump_events.items()):
                pts = list(range(1, n + 1))
                if n > 40:
                    # write events in the middle of a dump are all alike (the buffered data is lost);
                    # the flush / close events at the end are where a torn file is produced
                    pts = sorted(set(pts[:4] + pts[-8:] + pts[::max(1, n // 12)]))
                pts.sort(key=lambda k: -k)
                for k in pts:
                    self.q.append(["dump", {"obj": key, "path": f"torn_{key}.yaml", "abort_at": k}])
                    self.q.append(["dump", {"obj": key, "path": f"torn_{key}.yaml"}])
                    self.q.append(["load", {"obj": key, "path": f"torn_{key}.yaml"}])
            if self.q:
                self.probe("torn_predecessor_points_enumerated", len(self.q) // 3)
                return self.q.pop(0)
        return None

    def _perturb(self, e):
        how = e.choice(["seed", "burn", "burn", "noseed_fiber", "noseed_tensor"])
        a = {"how": how}
        if how == "seed":
            a["seed"] = e.randrange(10 ** 6)
        elif how == "burn":
            a["k"] = e.randint(1, 17)
        else:
            a["shape"] = [e.randint(1, 4) for _ in range(e.randint(1, 2))]
        return ["perturb", a]

    def _plan_rand(self, g, e):
        evs = []
        for case in range(g.randint(1, 3)):
            depth = g.randint(1, 3)
            shape = [g.randint(1, 5) for _ in range(depth)]
            dens = [g.choice([0.3, 0.6, 1.0]) for _ in range(depth)]
            if g.random() < 0.35:
                dens = [1.0] * depth
            a = {"shape": shape, "density": dens if g.random() < 0.7 else dens[-1], "interval": g.choice([1, 3, 9]),
                 "seed": g.randrange(1000), "default": 0, "key": f"k{case}"}
            for rep in range(g.randint(2, 4)):
                for _ in range(e.randint(0, 3)):
                    evs.append(self._perturb(e))
                evs.append(["rand", dict(a, form=g.choice(["fiber", "tensor"]))])
            if g.random() < 0.4:
                # the same request with another empty value: its own key (it is another request), its own default
                d2 = g.choice([-1, 7])
                for rep in range(2):
                    evs.append(["rand", dict(a, form=g.choice(["fiber", "tensor"]), default=d2, key=f"k{case}d")])
        return evs

    def _plan_yaml(self, g):
        evs = []
        for i in range(g.randint(1, 2)):
            key = f"o{i}"
            kind = g.choice(["tensor", "tensor", "tensor", "fiber", "rank0"])
            depth = g.randint(1, 3)
            shape = [g.randint(1, 4) for _ in range(depth)]
            spec = self._spec(g, shape, 0)
            a = {"key": key, "kind": kind, "shape": shape, "spec": spec,
                 "name": g.choice(["", "A", "tensor-1", "Z z"]), "value": g.choice([0, 5, 2.5])}
            if kind == "tensor" and depth >= 2 and g.random() < 0.25:
                # tuple coordinates: the dictionary form is checked at build time; the YAML form is known finding F13
                a["flatten"] = {"levels": g.choice([depth - 1, g.randint(1, depth - 1)]), "style": g.choice(["tuple", "pair", "pair"])}
                evs.append(["build", a])
                continue
            if kind == "tensor" and depth >= 2 and g.random() < 0.15:
                # integer coordinates, but a rank id that is a list of the flattened ranks' ids: this one is dumped
                a["flatten"] = {"levels": g.randint(1, depth - 1), "style": "linear"}
            evs.append(["build", a])
            pre = g.choice(["none", "none", "older", "older_longer"])
            path = f"{key}.yaml"
            if pre != "none":
                evs.append(["build", {"key": key + "x", "kind": kind if kind != "rank0" else "tensor",
                                      "shape": [4, 4] if pre == "older_longer" else [1],
                                      "spec": self._spec(g, [4, 4], 0, dens=1.0) if pre == "older_longer" else [[0, 1]],
                                      "name": "older", "value": 1}])
                evs.append(["dump", {"obj": key + "x", "path": path}])
                if g.random() < 0.6:
                    # the same path is loaded, rewritten and loaded again within one process
                    evs.append(["load", {"obj": key + "x", "path": path}])
            evs.append(["dump", dict({"obj": key, "path": path, "count": True},
                                     **({"os_short": g.randint(1, 40)} if g.random() < 0.2 else {}))])
            touched = g.random() < 0.4
            if touched:
                evs.append(["touch", {"obj": key, "mode": g.choice(["insert", "leaf", "leaf"])}])
            evs.append(["load", {"obj": key, "path": path}])
            if not touched and g.random() < 0.5:
                # another object is written to the path behind this one's back, then this one is dumped there again
                if pre == "none":
                    evs.append(["build", {"key": key + "y", "kind": kind if kind != "rank0" else "tensor", "shape": [2],
                                          "spec": [[1, 7]], "name": "other", "value": 1}])
                evs.append(["dump", {"obj": key + ("y" if pre == "none" else "x"), "path": path}])
                evs.append(["dump", {"obj": key, "path": path}])
                evs.append(["load", {"obj": key, "path": path}])
            if touched and g.random() < 0.7:
                # ... and the updated object is dumped again (same path or a new one): that file holds the new state
                path2 = g.choice([path, f"{key}b.yaml"])
                evs.append(["dump", {"obj": key, "path": path2}])
                evs.append(["load", {"obj": key, "path": path2}])
        return evs

    def _plan_nest(self, g):
        """piggy-back (pure clauses (a)/(b) of C13): nests of depth 1-4, int / float entries, all-default nests,
        all-default inner planes, non-zero defaults, fiber and tensor form, dictionary form"""
        evs = []
        for _ in range(g.randint(3, 8)):
            depth = g.randint(1, 4)
            dims = [g.randint(1, 3) for _ in range(depth)]
            default = g.choice([0, 0, 0, 5, -1, 2.5, None])
            kind = g.choice(["rand", "rand", "alldef", "plane", "full"])
            dens = {"rand": g.choice([0.2, 0.6]), "alldef": 0.0, "plane": 0.7, "full": 1.0}[kind]
            fl = g.random() < 0.25

            def mk(level):
                if level == depth - 1:
                    out = []
                    for _ in range(dims[level]):
                        if g.random() < dens:
                            self.uniq += 1
                            v = self.uniq + (0.5 if fl else 0)
                            if default != 0 and default is not None and g.random() < 0.3 or default is None and g.random() < 0.2:
                                v = 0            # a literal zero is an ordinary value when the empty value is not 0
                            out.append(v if v != default else v + 1)
                        else:
                            out.append(default)
                    return out
                return [mk(level + 1) for _ in range(dims[level])]
            nest = mk(0)
            if kind == "plane" and depth >= 2:
                # one inner plane entirely default
                def blank(n):
                    return [blank(x) for x in n] if isinstance(n, list) else default
                nest[g.randrange(dims[0])] = blank(nest[0])
            evs.append(["nest", {"nest": nest, "dims": dims, "default": default, "form": g.choice(["tensor", "fiber"]),
                                 "ragged_first": g.random() < 0.3}])
        return evs

    def ev_nest(self, a):
        import copy
        nest, dims, default = a["nest"], a["dims"], a["default"]
        self.nrand += 1
        want = {}

        def rec(n, pt):
            if isinstance(n, list):
                for i, x in enumerate(n):
                    rec(x, pt + (i,))
            elif n != default:
                want[pt] = n
        rec(nest, ())
        if a.get("ragged_first") and len(dims) >= 2:
            # the program first hands over a ragged nest (rejected, if the library checks at all); the next,
            # rectangular nest is converted as if nothing had happened
            rag = copy.deepcopy(nest)
            try:
                rag[0] = rag[0] + [1] if isinstance(rag[0], list) else rag
                Fiber.fromUncompressed(rag, default=default)
            except Exception:
                self.fault("rejected:ragged-nest")
        try:
            if a["form"] == "tensor":
                t = Tensor.fromUncompressed([f"R{i}" for i in range(len(dims))], copy.deepcopy(nest), default=default)
                root = t.getRoot()
                shape = t.getShape()
            else:
                root = Fiber.fromUncompressed(copy.deepcopy(nest), default=default)
                shape = root.getShape()
        except Exception as e:
            self.V("C13", "C13.nest", "nest", f"fromUncompressed raised {type(e).__name__}: {str(e)[:80]} for {nest}")
            return {"status": "exc"}
        got = ob.content(root, default)
        if got != want:
            self.V("C13", "C13.nest", "nest", f"fromUncompressed({nest}, default={default}) holds {got}, the nest's non-default entries are {want}")
        if a["form"] == "tensor" and list(shape) != list(dims):
            self.V("C13", "C13.nest", "nest", f"fromUncompressed({nest}) reports shape {shape}, the nest's dimensions are {dims}")
        if a["form"] == "fiber" and want and list(shape) != list(dims):
            self.V("C13", "C13.nest", "nest", f"Fiber.fromUncompressed({nest}) reports shape {shape}, the nest's dimensions are {dims}")
        # no explicit defaults stored, no empty sub-fibers
        def stored_defaults(f, path=()):
            bad = []
            for c, p in zip(f.coords, f.payloads):
                if isinstance(p, Fiber):
                    if len(p.coords) == 0:
                        bad.append(path + (c,))
                    bad += stored_defaults(p, path + (c,))
                elif (p.value if isinstance(p, Payload) else p) == default:
                    bad.append(path + (c,))
            return bad
        bad = stored_defaults(root)
        if bad:
            self.V("C13", "C13.nest", "nest", f"fromUncompressed({nest}) stores explicit defaults / empty sub-fibers at {bad[:4]}")
        # an earlier walk of the program used the position shortcut and was left with break: nothing of that
        # may matter to the conversion
        try:
            if isinstance(root, Fiber) and len(root.coords) >= 2:
                for n_, _ in enumerate(root.__iter__(start_pos=0)):
                    if n_ >= 1:
                        break
                sub = root.payloads[-1]
                if isinstance(sub, Fiber) and len(sub.coords) >= 2:
                    sub.getPayload(sub.coords[-1], start_pos=len(sub.coords) - 1)
                self.probe("nest_walked_with_shortcut_before_uncompress")
        except Exception:
            pass
        try:
            back = root.uncompress(list(dims))
        except Exception as e:
            self.V("C13", "C13.nest", "nest", f"uncompress({dims}) raised {type(e).__name__}: {str(e)[:60]} for {nest}")
            return {"status": "exc"}
        if back != nest:
            self.V("C13", "C13.nest", "nest", f"uncompress({dims}) returned {back}, the original nest is {nest}")
        else:
            # the caller owns the nest it was given: it edits it, and asks again - the second answer is the original
            def scribble(n):
                for i, x in enumerate(n):
                    if isinstance(x, list):
                        scribble(x)
                    else:
                        n[i] = 99
                n.append(98)
            scribble(back)
            try:
                again = root.uncompress(list(dims))
            except Exception as e:
                again = f"raised {type(e).__name__}"
            if again != nest:
                self.V("C13", "C13.nest", "nest",
                       f"a second uncompress({dims}), after the caller edited the first result, returned {again}; the "
                       f"original nest is {nest}")
            self.probe("nest_uncompressed_twice")
            # ... and with a larger shape: the nest padded with the default
            dims2 = [x + 1 for x in dims]

            def pad(n, lvl):
                if lvl == len(dims) - 1:
                    return list(n) + [default] * (dims2[lvl] - len(n))
                rows = [pad(x, lvl + 1) for x in n]
                filler = default
                for k in range(len(dims) - 1, lvl, -1):
                    filler = [filler] * dims2[k] if k == len(dims) - 1 else [copy.deepcopy(filler) for _ in range(dims2[k])]
                return rows + [copy.deepcopy(filler) for _ in range(dims2[lvl] - len(rows))]
            try:
                bigger = root.uncompress(list(dims2))
            except Exception as e:
                bigger = f"raised {type(e).__name__}"
            if bigger != pad(nest, 0):
                self.V("C13", "C13.nest", "nest",
                       f"uncompress({dims2}) after uncompress({dims}) returned {bigger}, expected the nest padded with "
                       f"{default}: {pad(nest, 0)}")
        # (b) the dictionary form
        try:
            d = root.fiber2dict()
            d_before = repr(d)
            f2 = Fiber.dict2fiber(d)
        except Exception as e:
            self.V("C13", "C13.dict", "nest", f"dictionary round trip raised {type(e).__name__}")
            return {"status": "exc"}
        if ob.enc_fiber(f2) != ob.enc_fiber(root):
            self.V("C13", "C13.dict", "nest", f"dict2fiber(fiber2dict(f)) differs from f for {nest}")
        # the dictionary is the caller's: decoding leaves it as it was, and decoding it again gives an independent fiber
        if repr(d) != d_before:
            self.V("C13", "C13.dict", "nest", f"dict2fiber changed the dictionary it was given: {d_before[:80]} became {repr(d)[:80]}")
        else:
            try:
                f3 = Fiber.dict2fiber(d)
                common = set(ob.identity_set(f2)) & set(ob.identity_set(f3))
                if ob.enc_fiber(f3) != ob.enc_fiber(root) or common:
                    self.V("C13", "C13.dict", "nest",
                           f"a second dict2fiber of the same dictionary gives {ob.enc_fiber(f3)} sharing {len(common)} objects "
                           f"with the first decode; the fiber is {ob.enc_fiber(root)}")
            except Exception as e:
                self.V("C13", "C13.dict", "nest", f"second dict2fiber of the same dictionary raised {type(e).__name__}")
        self.probe("nest_roundtrip_checked")
        if not want:
            self.probe("nest_all_default")
        return {"points": len(want)}

    def _spec(self, g, shape, level, dens=None):
        S = shape[level]
        d = dens if dens is not None else g.choice([0.0, 0.4, 0.8])
        out = []
        for c in range(S):
            if g.random() >= d and dens is None:
                continue
            if level == len(shape) - 1:
                self.uniq += 1
                out.append([c, 0 if g.random() < self.cfg["explicit"] else g.choice([self.uniq, self.uniq + 0.5, self.uniq, self.uniq * 1e-07, self.uniq * 1e+16])])
            else:
                out.append([c, [] if g.random() < self.cfg["explicit"] * 0.5 else self._spec(g, shape, level + 1, dens)])
        return out

    # ------------------------------------------------------------------ execution
    def execute(self, ev):
        self.steps += 1
        self.sched.append([ev[0], ev[1].get("how") or ev[1].get("form") or ev[1].get("abort_at")])
        try:
            return getattr(self, "ev_" + ev[0])(ev[1])
        except Skip as e:
            return {"status": "skipped", "why": str(e)}

    # ---- (d) seeded random construction
    def ev_perturb(self, a):
        how = a["how"]
        self.fault("prng-perturbed:" + how)
        if how == "seed":
            self.rnd.r.seed(a["seed"])
        elif how == "burn":
            for _ in range(a["k"]):
                self.rnd.r.random()
        elif how == "noseed_fiber":
            Fiber.fromRandom(a["shape"], 0.5)
        else:
            Tensor.fromRandom(rank_ids=[f"R{i}" for i in range(len(a["shape"]))], shape=a["shape"],
                              density=[0.5] * len(a["shape"]))
        return {}

    def ev_rand(self, a):
        shape, dens = a["shape"], a["density"]
        self.nrand += 1
        try:
            if a["form"] == "fiber":
                f = Fiber.fromRandom(shape, dens, a["interval"], seed=a["seed"], default=a["default"])
                root = f
            else:
                t = Tensor.fromRandom(rank_ids=[f"R{i}" for i in range(len(shape))], shape=shape,
                                      density=dens if isinstance(dens, list) else [1.0] * (len(shape) - 1) + [dens],
                                      interval=a["interval"], seed=a["seed"], default=a["default"])
                root = t.getRoot()
        except Exception as e:
            self.V("C13", "C13.no-exception", "rand", f"fromRandom raised {type(e).__name__}: {str(e)[:80]}")
            return {"status": "exc"}
        enc = ob.enc_fiber(root)
        cont = ob.content(root, a["default"])
        # the empty value asked for is the empty value the result has
        leaf = root
        for _ in range(len(shape) - 1):
            leaf = leaf.payloads[0] if isinstance(leaf, Fiber) and leaf.payloads else None
        if isinstance(leaf, Fiber):
            try:
                gotd = Payload.get(leaf.getDefault())
            except Exception:
                gotd = "?"
            if gotd != a["default"]:
                self.V("C13", "C13.random-reproducible", "rand",
                       f"fromRandom(shape={shape}, seed={a['seed']}, default={a['default']}) gives a result whose leaf "
                       f"default is {gotd!r}")
        if any(v == a["default"] for v in cont.values()):
            pass
        for pt in cont:
            if any(not (0 <= c < s) for c, s in zip(pt, shape)):
                self.V("C13", "C13.random-inside-shape", "rand", f"fromRandom(shape={shape}) produced point {pt}")
        dl = dens if isinstance(dens, list) else [1.0] * (len(shape) - 1) + [dens]
        if all(d == 1.0 for d in dl) and a["default"] == 0:
            n = 1
            for s in shape:
                n *= s
            self.probe("density_one_case")
            if len(cont) != n:
                self.V("C13", "C13.random-fills-at-density-1", "rand",
                       f"fromRandom(shape={shape}, density=1) holds {len(cont)} of {n} points")
        prev = self.results.get(a["key"])
        if prev is None:
            self.results[a["key"]] = (enc, a["form"])
        else:
            if prev[0] != enc:
                self.V("C13", "C13.random-reproducible", "rand",
                       f"fromRandom(shape={shape}, density={dens}, seed={a['seed']}) as {a['form']} differs from the "
                       f"earlier construction as {prev[1]} with the same seed ({len(ob.content(root, 0))} points now)")
            self.probe("seeded_pair_compared")
            if prev[1] != a["form"]:
                self.probe("fiber_vs_tensor_form_compared")
        return {"points": len(cont)}

    # ---- (c) YAML through files
    def ev_build(self, a):
        kind = a["kind"]
        if kind == "rank0":
            t = Tensor(rank_ids=[], name=a["name"])
            r = t.getPayloadRef()
            r <<= a["value"]
            self.objs[a["key"]] = ("tensor", t)
        else:
            f = build_fiber(a["spec"], a["shape"])
            if kind == "fiber":
                self.objs[a["key"]] = ("fiber", f)
            else:
                ids = ["M", "K", "N"][:len(a["shape"])]
                t = Tensor.fromFiber(ids, f, shape=a["shape"], name=a["name"])
                if a.get("flatten") and len(ids) >= 2:
                    fl = a["flatten"] if isinstance(a["flatten"], dict) else {"levels": 1, "style": "tuple"}
                    lv = min(fl.get("levels", 1), len(ids) - 1)
                    t = t.flattenRanks(depth=0, levels=lv, coord_style=fl.get("style", "tuple"))   # tuple coordinates
                    self.probe("built_with_tuple_coordinates")
                self.objs[a["key"]] = ("tensor", t)
        # (b) the dictionary form round-trips (piggy-back, pure): same coordinates (types included) and payloads
        kind2, o = self.objs[a["key"]]
        root = ob.root_of(o) if kind2 == "tensor" else o
        if isinstance(root, Fiber):
            try:
                back = Fiber.dict2fiber(root.fiber2dict())
            except Exception as e:
                self.V("C13", "C13.dict", "build", f"dictionary round trip raised {type(e).__name__}: {str(e)[:60]}")
                return {"kind": kind}
            if repr(ob.enc_fiber(back)) != repr(ob.enc_fiber(root)) or _coord_types(back) != _coord_types(root):
                self.V("C13", "C13.dict", "build",
                       f"dict2fiber(fiber2dict(f)) differs from f: coordinates {root.coords[:3]} came back as {back.coords[:3]}")
        return {"kind": kind}

    def ev_dump(self, a):
        if a["obj"] not in self.objs:
            raise Skip("no object")
        kind, o = self.objs[a["obj"]]
        path = os.path.join(self.scratch, a["path"])
        fs = self.fs
        fs.reset_counters()
        fs.disarm()
        if a.get("abort_at"):
            fs.arm(a["abort_at"], "abort" if a["abort_at"] % 4 else "enospc")
        err = None
        short = {"fired": 0}
        real_write = os.write
        if a.get("os_short"):
            # a second seam, one level down: a descriptor-level write may legally transfer fewer bytes than it was
            # given (a nearly full disk, a file size limit); it says so in its return value. The unchanged dump does not
            # write through descriptors itself, so this fault only ever meets code that has started to.
            n_short = a["os_short"]

            def short_write(fd, data):
                if not short["fired"] and len(data) > n_short:
                    short["fired"] = 1
                    return real_write(fd, data[:n_short])
                return real_write(fd, data)
            os.write = short_write
        try:
            o.dump(path)
        except SimAbort:
            err = "SimAbort"
        except OSError:
            err = "OSError"
        except Exception as e:
            err = f"{type(e).__name__}: {str(e)[:80]}"
        finally:
            os.write = real_write
        if short["fired"]:
            self.fault("os:short-write")
            if err is None:
                # the call reported success: then the whole document is in the file
                ref = path + ".ref"
                o.dump(ref)
                with open(ref, "rb") as f1, open(path, "rb") as f2:
                    whole, got = f1.read(), f2.read()
                os.remove(ref)
                if got != whole:
                    self.V("C13", "C13.yaml-roundtrip", "dump",
                           f"a descriptor-level write transferred {n_short} bytes of {len(whole)} and said so; dump() "
                           f"returned normally with a file of {len(got)} bytes (a faithful dump has {len(whole)})")
            else:
                # the call failed and said so: allowed. The program dumps again once the disk has room.
                self.probe("dump_failed_on_short_write")
                err = None
                try:
                    o.dump(path)
                except Exception as e:
                    err = f"{type(e).__name__}: {str(e)[:80]}"
        fired = list(fs.fired)
        fs.fired = []
        fs.disarm()
        fs.open_handles.clear() if fired else None
        if fired:
            self.fault("fs:" + fired[0][1] + ":" + fired[0][2])
            return {"err": err, "file_events": fs.n, "torn": True}
        if err is not None:
            self.V("C13", "C13.no-exception", "dump", f"dump raised {err}")
        if fs.open_handles:
            self.V("C13", "C13.yaml-roundtrip", "dump", "dump returned with its file still open (data not yet visible to a reader)")
        self.ndump += 1
        if a.get("count"):
            self.dump_events[a["obj"]] = fs.n
        # what the file must give back: the object as it was when it was dumped
        if kind == "tensor":
            self.dumped[a["path"]] = {"content": ob.content(ob.root_of(o), 0), "ids": list(o.getRankIds()),
                                      "shape": o.getShape(), "name": o.getName(),
                                      "tuple_coords": any("tuple" in repr(x) for x in _coord_types(ob.root_of(o)))
                                      if isinstance(ob.root_of(o), Fiber) else False}
        else:
            self.dumped[a["path"]] = {"content": ob.content(o, 0)}
        return {"file_events": fs.n}

    def ev_touch(self, a):
        """the dumped object keeps living: it is updated in place after the dump (the file must not follow it)"""
        if a["obj"] not in self.objs:
            raise Skip("no object")
        kind, o = self.objs[a["obj"]]
        root = ob.root_of(o) if kind == "tensor" else o
        if not isinstance(root, Fiber):
            r = o.getPayloadRef()
            r += 3
            return {}
        depth = len(o.ranks) if kind == "tensor" else None
        f = root
        pt = []
        if a.get("mode") == "leaf":
            # an existing leaf value is updated through its box: no fiber gains or loses an element
            g2 = f
            while g2.payloads and isinstance(g2.payloads[-1], Fiber):
                g2 = g2.payloads[-1]
            if g2.payloads and not isinstance(g2.payloads[-1], Fiber):
                box = g2.payloads[-1]
                box <<= (box.value if isinstance(box.value, (int, float)) else 0) + 1000
                self.probe("object_leaf_updated_after_dump")
                return {"touched": "leaf"}
        # insert a fresh coordinate at the first level and walk down creating the path
        c = (max(f.coords) + 1) if f.coords else 0
        if kind == "tensor":
            pt = [c] + [0] * (depth - 1)
            r = o.getPayloadRef(*pt)
            r <<= 77
        else:
            d = 1
            g = f
            while g.payloads and isinstance(g.payloads[0], Fiber):
                g = g.payloads[0]
                d += 1
            if d == 1:
                r = f.getPayloadRef(c)
                r <<= 77
            else:
                raise Skip("free multi-level fiber")
        self.probe("object_updated_after_dump")
        return {}

    def ev_load(self, a):
        if a["obj"] not in self.objs:
            raise Skip("no object")
        kind, o = self.objs[a["obj"]]
        path = os.path.join(self.scratch, a["path"])
        if not os.path.exists(path):
            raise Skip("no file")
        import contextlib
        import io
        try:
            with contextlib.redirect_stdout(io.StringIO()):
                if kind == "tensor":
                    t2 = Tensor.fromYAMLfile(path)
                else:
                    f2 = Fiber.fromYAMLfile(path)
        except SystemExit:
            snap0 = self.dumped.get(a["path"]) or {}
            tc = snap0.get("tuple_coords")
            self.V("C13", "C13.yaml-roundtrip", "load",
                   "the library could not parse its own dump and called exit(); the dumped object had "
                   + ("tuple coordinates" if tc else "only integer coordinates") + f" (rank ids {snap0.get('ids')})")
            return {"status": "exit"}
        except Exception as e:
            self.V("C13", "C13.yaml-roundtrip", "load", f"loading the dump raised {type(e).__name__}: {str(e)[:80]}")
            return {"status": "exc"}
        self.fs.open_handles.clear()
        snap = self.dumped.get(a["path"])
        if snap is None:
            raise Skip("nothing was dumped there")
        if kind == "tensor":
            c1, c2 = snap["content"], ob.content(ob.root_of(t2), 0)
            if c1 != c2:
                self.V("C13", "C13.yaml-roundtrip", "load", f"content differs after dump/load: {len(c1)} vs {len(c2)} points")
            if t2.getRankIds() != snap["ids"]:
                self.V("C13", "C13.yaml-roundtrip", "load", f"rank ids {snap['ids']} came back as {t2.getRankIds()}")
            if t2.getShape() != snap["shape"]:
                self.V("C13", "C13.yaml-roundtrip", "load", f"shape {snap['shape']} came back as {t2.getShape()}")
            if t2.getName() != snap["name"]:
                self.V("C13", "C13.yaml-roundtrip-name", "load", f"name {snap['name']!r} came back as {t2.getName()!r}")
            if not o.ranks:
                self.probe("rank0_roundtrip")
        else:
            c1, c2 = snap["content"], ob.content(f2, 0)
            if c1 != c2:
                self.V("C13", "C13.yaml-roundtrip", "load", f"fiber content differs after dump/load: {len(c1)} vs {len(c2)} points")
        self.probe("yaml_roundtrip_compared")
        return {}

    def finish(self):
        return {"dumps": self.ndump, "rands": self.nrand}

    def nontrivial(self, log):
        return (self.ndump + self.nrand) >= 2
