"""Which world decides which property, with budgets and evidence boilerplate."""
from .treesim import TreeSim

REAL_CORE = {
    "fibertree.core (fiber, iterators, payload, coord_payload, rank, rank_attrs, tensor)": "real code from /repo working tree",
    "third-party (yaml, sortedcontainers, file_read_backwards, PIL)": "real",
    "scheduler / loop bodies / clients": "simulator (seeded PRNG streams)",
    "reference models (map model, rank mirror, snapshots)": "simulator-side, independent of the library",
}

TREE_ASSUME = [
    "observation reads the documented public attributes Fiber.coords / Fiber.payloads / Rank.getFibers() / Tensor.ranks",
    "single-threaded cooperative tasks only: no pre-emptive interleaving is simulated (the library makes no thread-safety claim)",
    "a tensor with a live traversal is mutated only through that traversal's offered references (iterator contract)",
    "type-incorrect arguments (scalar at an interior level, non-injective coordinate maps, unboxed updatePayloads results) are never generated",
    "seeded search, not enumeration: a clean batch is evidence, not proof",
]


def tree_budget(q_runs=40000, t_runs=600000, q_wall=50, t_wall=540):
    return {"quick": {"max_runs": q_runs, "wall": q_wall, "dup_every": 40, "shrink_s": 40},
            "thorough": {"max_runs": t_runs, "wall": t_wall, "dup_every": 200, "shrink_s": 120}}


REGISTRY = {}


def _tree(prop, rule):
    REGISTRY[prop] = {
        "world": TreeSim,
        "level": "exploration",
        "budget": tree_budget(),
        "rule": rule,
        "components": REAL_CORE,
        "assumptions": TREE_ASSUME,
    }


_tree("C01", "each evaluation is one seeded history (<=60 events) of public mutators, live populate / dense-reference "
      "traversals stepped and cancelled at scheduler-chosen yields, and deliberately rejected operations, against 1-3 "
      "real tensors; the well-formedness invariant is evaluated on every tensor after every event. distinct = distinct "
      "event-log digest; non-trivial = >=5 executed events and (a multi-step traversal, a fired fault, or >=3 op kinds)")
_tree("C02", "as C01, plus constructors / deepcopy / setRoot adoption / YAML reload and the read-only family; the "
      "rank-mirror invariant (rank lists == raw walk, owners, chaining, single root) is evaluated on every tensor after "
      "every event. distinct/non-trivial as C01")
_tree("C03", "seeded interleavings of getPayload / getPayloadRef / getPosition / getPositionRef / handle writes (late, "
      "after foreign insertions) with every legal start_pos, checked operation by operation against a map model with "
      "unique written values; other mutators only diversify the state. distinct/non-trivial as C01")
_tree("C05", "seeded populate loops (nested level by level) whose body is the scheduler: assign / accumulate / leave / "
      "write the default / descend / cancel at any yield, interleaved with reads of the destination and mutation of "
      "unrelated tensors; yielded sequence, offered references, source immutability and final content checked against "
      "the model. distinct/non-trivial as C01")
_tree("C10", "value-returning and read-only operations applied to tensors in reached states; operands snapshotted "
      "before/after, identity sets of all tensors pairwise disjoint, both sides mutated afterwards and cross-talk "
      "detected by snapshot comparison after every event. distinct/non-trivial as C01")
