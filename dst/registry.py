"""Which world decides which property, with budgets and evidence boilerplate."""
from .treesim import TreeSim

REAL_CORE = {
    "fibertree.core (fiber, iterators, payload, coord_payload, rank, rank_attrs, tensor)": "real code from /repo working tree",
    "third-party (yaml, sortedcontainers, file_read_backwards, PIL)": "real",
    "scheduler / loop bodies / clients": "simulator (seeded PRNG streams)",
    "reference models (map model, rank mirror, snapshots)": "simulator-side, independent of the library",
}

TREE_ASSUME = [
    "observation reads the documented public attributes Fiber.coords / Fiber.payloads / Rank.getFibers() / Tensor.ranks",
    "single-threaded cooperative tasks only: no pre-emptive interleaving is simulated (the library makes no thread-safety claim)",
    "a tensor with a live traversal is mutated only through that traversal's offered references (iterator contract)",
    "type-incorrect arguments (scalar at an interior level, non-injective coordinate maps, unboxed updatePayloads results) are never generated",
    "seeded search, not enumeration: a clean batch is evidence, not proof",
]


def tree_budget(q_runs=40000, t_runs=600000, q_wall=50, t_wall=540):
    return {"quick": {"max_runs": q_runs, "wall": q_wall, "dup_every": 40, "shrink_s": 40},
            "thorough": {"max_runs": t_runs, "wall": t_wall, "dup_every": 200, "shrink_s": 120}}


REGISTRY = {}


def _tree(prop, rule):
    REGISTRY[prop] = {
        "world": TreeSim,
        "level": "exploration",
        "budget": tree_budget(),
        "rule": rule,
        "components": REAL_CORE,
        "assumptions": TREE_ASSUME,
    }


_tree("C01", "each evaluation is one seeded history (<=60 events) of public mutators, live populate / dense-reference "
      "traversals stepped and cancelled at scheduler-chosen yields, and deliberately rejected operations, against 1-3 "
      "real tensors; the well-formedness invariant is evaluated on every tensor after every event. distinct = distinct "
      "event-log digest; non-trivial = >=5 executed events and (a multi-step traversal, a fired fault, or >=3 op kinds)")
_tree("C02", "as C01, plus constructors / deepcopy / setRoot adoption / YAML reload and the read-only family; the "
      "rank-mirror invariant (rank lists == raw walk, owners, chaining, single root) is evaluated on every tensor after "
      "every event. distinct/non-trivial as C01")
_tree("C03", "seeded interleavings of getPayload / getPayloadRef / getPosition / getPositionRef / handle writes (late, "
      "after foreign insertions) with every legal start_pos, checked operation by operation against a map model with "
      "unique written values; other mutators only diversify the state. distinct/non-trivial as C01")
_tree("C05", "seeded populate loops (nested level by level) whose body is the scheduler: assign / accumulate / leave / "
      "write the default / descend / cancel at any yield, interleaved with reads of the destination and mutation of "
      "unrelated tensors; yielded sequence, offered references, source immutability and final content checked against "
      "the model; the range an uncompressed source presents is modelled (declared shape, else largest coordinate + 1 at "
      "the time of the loop) where no operation ever set an active range. distinct/non-trivial as C01")
_tree("C10", "value-returning and read-only operations applied to tensors in reached states; operands snapshotted "
      "before/after, identity sets of all tensors pairwise disjoint, both sides mutated afterwards and cross-talk "
      "detected by snapshot comparison after every event; Fiber.copy results are compared (owner chain included) before "
      "they are wrapped; for read-only operations a deep copy taken before and one taken after the operation are grown "
      "by the same element and must answer every shape / active-range / walk query alike (hidden state). "
      "distinct/non-trivial as C01")


# ------------------------------------------------------------------------------------ KernelSim
from .kernelsim import KernelSim  # noqa: E402

REAL_KERNEL = dict(REAL_CORE, **{
    "fibertree.core.metrics.Metrics": "real; its open() is the simulator's file seam",
    "fibertree.model.compute / intersect": "real",
    "file system": "real files in a per-run scratch directory under /dev/shm behind the interposer (worst-case buffering, numbered events, injected OSError)",
    "kernel interpreter, dense evaluator, shadow merge": "simulator-side reference",
})

KERNEL_ASSUME = [
    "kernels come from a 15-member einsum family (1-3 operands, 1-3 index variables) written in the library's idiom; shapes <= 5",
    "single-threaded; a body exception unwinds the nest innermost-first exactly as Python does",
    "seeded search over (einsum, operands); loop orders, tile sizes of one rank and intersection styles are enumerated per sampled case",
]


def kernel_budget(q_runs, t_runs, q_wall=50, t_wall=540):
    return {"quick": {"max_runs": q_runs, "wall": q_wall, "dup_every": 25, "shrink_s": 40, "run_timeout": 120},
            "thorough": {"max_runs": t_runs, "wall": t_wall, "dup_every": 100, "shrink_s": 120, "run_timeout": 300}}


REGISTRY["C06"] = {
    "world": KernelSim, "level": "exploration", "budget": kernel_budget(20000, 400000),
    "rule": "each evaluation is one sampled (einsum, operand values) executed under every loop order, every tile size "
            "of one sampled rank (tile loops adjacent or separated) and the three intersection styles with the real "
            "swizzleRanks / splitUniform / & / << / +=; every execution is compared with a dense evaluation; between two "
            "executions the program may update an operand in place or walk it with plain loops, executions may swizzle "
            "unconditionally and take their output as a copy of a declared empty tensor, and tiled executions may keep the "
            "output's un-tiled rank (populated tile after tile). "
            "distinct = distinct event-log digest; non-trivial = at least two dataflows executed",
    "components": REAL_KERNEL, "assumptions": KERNEL_ASSUME,
}
REGISTRY["C15"] = {
    "world": KernelSim, "level": "exploration", "budget": kernel_budget(20000, 400000),
    "rule": "each evaluation is one pristine child: the target session first (reference), the same kernel with "
            "collection off, then a history of 0-6 sessions of arbitrary kernels / registrations / thresholds that end "
            "normally, by a body exception, abandoned, rejected by an undrained consumable trace or by an injected "
            "OSError at a file event, then the target session again; counts are compared with the interpreter's own, "
            "dump() and trace files with the first-session run; loop bodies are spelled three ways (box*box, scalar*box, "
            "box*scalar; +=, z <<= z + p, z <<= 0 + p), tilings include dynamic partitioning by a list or a leader fiber "
            "inside the session, earlier sessions may also leave loops early (break); plus a tile-by-tile output update "
            "with the position shortcut (start_pos) run off / on / on with populate traces. distinct = distinct event-log digest; non-trivial = "
            "at least two kernel executions",
    "components": REAL_KERNEL, "assumptions": KERNEL_ASSUME,
}
REGISTRY["C16"] = {
    "world": KernelSim, "level": "exploration", "budget": kernel_budget(20000, 400000),
    "rule": "each evaluation is one sampled (einsum, operands, dataflow) whose session is executed under every flush "
            "threshold in {2,3,5,7,64,1000} with all trace types registered, and twice with consumable traces drained "
            "at scheduler-chosen loop boundaries; every trace is parsed and judged (header, one row per access from a "
            "shadow merge of the raw coordinate lists, stamp order, addressing and position), files compared across "
            "thresholds and with the concatenated in-memory batches (the consumer hands its batches to real intersection "
            "model objects); plus a kernel over a flattened rank and kernels over projected fibers (project_i traces, the "
            "two idioms the library's tests use, intervals, start positions, explicit defaults). distinct = distinct event-log digest; "
            "non-trivial = at least two sessions",
    "components": REAL_KERNEL, "assumptions": KERNEL_ASSUME + [
        "every element a co-iteration fetched is an access and must have a row, including the look-ahead element read when the other side ran out",
        "destination-side traces of an inserting populate are only required to be stamp-ordered and complete"],
}
REGISTRY["C19"] = {
    "world": KernelSim, "level": "exploration", "budget": kernel_budget(20000, 400000),
    "rule": "each evaluation is one sampled kernel with a two-operand intersection under 0-2 outer loops; for each of "
            "the three models the consumer task drains the consumable traces into a fresh intersector at every subset "
            "of the first four fiber boundaries (complete), at all boundaries, only at the end, and at random subsets; "
            "totals are compared with merge counters on the raw coordinate lists; Compute.numSwaps (pure) is checked as a "
            "piggy-back: exact for finite latency, exact for unbounded latency when all coordinates are distinct, bounds "
            "otherwise, independent of payload values. distinct = distinct event-log digest",
    "components": REAL_KERNEL, "assumptions": KERNEL_ASSUME,
}


# ------------------------------------------------------------------------------------ PipelineSim
from .pipelinesim import PipelineSim  # noqa: E402

REGISTRY["C17"] = {
    "world": PipelineSim, "level": "fault_enumeration", "budget": kernel_budget(20000, 400000),
    "rule": "each evaluation is one sampled pipeline (synthetic well-formed read/write traces over 1-3 loop ranks, or the traces of a real kernel run under the real Metrics; 1-2 "
            "tensors, optionally a second binding on an upper rank with another element size, line sizes 1-4 elements, evict-on root or any outer rank, cache capacities from 0 to unbounded; "
            "or a filterTrace / _combineTraces call) executed once undisturbed through the file seam and judged against "
            "the reference policy model, then once per file event n of that call with the call aborted (SimAbort, torn "
            "write) or failed (ENOSPC) at event n and restarted with the same arguments; the restart must return the "
            "undisturbed result, leave the inputs untouched and remove all temporaries; afterwards (second act) the same "
            "trace file names may hold another kernel's traces, or a Format object the caller kept is given another width, "
            "and the models are called again. distinct = distinct event-log "
            "digest; non-trivial = at least two calls",
    "components": {
        "fibertree.model.traffic / format": "real code from /repo working tree",
        "file_read_backwards, sortedcontainers": "real; they read the real scratch files behind the interposer",
        "file system": "real files in a per-run scratch directory under /dev/shm behind the interposer: numbered events, worst-case buffering, SimAbort / OSError injected at event n, torn writes",
        "trace producer": "simulator (synthetic well-formed traces); reference models: window rule, Belady-MIN with bypass (cross-checked by exhaustive search on tiny instances), stable merge, point filter",
    },
    "assumptions": [
        "input traces are well-formed in the sense of C16 (stamps non-decreasing, positions consistent per fiber)",
        "nothing is required of the aborted call itself (it may leave temporaries)",
        "exact optimality is demanded for single-binding read-only cache configurations; with writes and a capacity below one line an exact model (only staging lines are ever resident) is demanded; with writes and larger capacities or several bindings only the metamorphic bounds are demanded",
        "abort points are enumerated completely per sampled pipeline when it has at most the per-tier cap of file events, sampled otherwise (reported)",
    ],
}


# ------------------------------------------------------------------------------------ ConvSim
from .convsim import ConvSim  # noqa: E402

REGISTRY["C13"] = {
    "world": ConvSim, "level": "exploration", "budget": kernel_budget(20000, 400000),
    "rule": "PARTIAL: only the two clauses of C13 that depend on something outside one call's arguments are decided. "
            "(d) seeded fromRandom (fiber and tensor form, depth 1-3) is built 2-4 times while a simulated other consumer "
            "re-seeds / draws from / builds unseeded tensors with the process-global generator in between; results must "
            "be identical, inside the shape and full at density 1. (c) tensors / fibers / rank-0 tensors holding explicit "
            "defaults, empty sub-fibers, float payloads and names are dumped through the file seam onto a path that is "
            "fresh, holds an older (possibly longer) dump, or a torn dump left by a dump aborted at file event n (every n), "
            "and loaded back; the dumped object may be updated in place afterwards (the file must not follow it) and dumped "
            "again (that file holds the new state). distinct = distinct event-log digest; non-trivial = at least two constructions or dumps",
    "components": {
        "fibertree.core.fiber / tensor (fromRandom, dump, parse, dict2fiber, fromYAMLfile)": "real code from /repo working tree",
        "yaml": "real",
        "global random module as seen by fiber.py": "simulator-owned random.Random behind a shim (PRNG seam)",
        "file system": "real scratch files behind the interposer (worst-case buffering, abort at event n, torn writes)",
    },
    "assumptions": [
        "clauses (a) nest -> tensor -> uncompress and (b) dictionary form are pure functions of their argument: they are executed on sampled nests as a piggy-back check (sampled input generation, no fault or schedule dimension)",
        "tuple-coordinate tensors are not dumped (the YAML form of tuple coordinates is a separate, recorded finding)",
        "nothing is required of loading a torn file itself",
    ],
}


def _c15_extra(prop, tier, seed, root, known):
    """complete enumeration of the abort step / failing file event of one earlier session (fixed small kernels)"""
    import json as _json
    import os as _os
    from . import core as C
    from .kernelsim import c15_enumeration
    plans = c15_enumeration(tier, KernelSim, 16, root)
    results, failures = C.run_plans(KernelSim, plans, min(16, _os.cpu_count() or 4), root)
    lines = []
    code = 0
    fired = {}
    nviol = 0
    for plan, res in zip(plans, results):
        if res is None:
            continue
        for k, v in res["faults"].items():
            fired[k] = fired.get(k, 0) + v
        if res["violation"] is not None:
            k = C.match_known(res["violation"], known)
            if k is not None:
                continue
            nviol += 1
            if nviol <= 2:
                _os.makedirs(_os.path.join(C.OUT, "replays", prop), exist_ok=True)
                path = _os.path.join(C.OUT, "replays", prop, "enum-" + res["digest"][:16] + ".json")
                with open(path, "w") as f:
                    _json.dump(dict(plan, violation=res["violation"]), f, indent=1)
                lines.append(_json.dumps(res["violation"]))
                lines.append(f"VIOLATION property={prop} replay={path}")
                code = 1
    if failures:
        lines.append(f"HARNESS-FAULT {len(failures)} enumeration plans failed: {failures[0][1][-200:]}")
        code = max(code, 2)
    cov = {"evaluations": len(plans), "distinct_nontrivial": len({r["digest"] for r in results if r}),
           "enumerated_histories": len(plans),
           "enumeration": "every body-abort step (ended normally and abandoned) and every failing file event of one "
                          "earlier session, for " + ("3 fixed kernels" if tier == "thorough" else "1 fixed kernel")
                          + ", each followed by the target session",
           "enumeration_faults_fired": fired}
    return code, cov, lines


REGISTRY["C15"]["extra"] = _c15_extra


def _c17_extra(prop, tier, seed, root, known):
    """the optimal-replacement reference itself is cross-checked by exhaustive search over replacement decisions"""
    import itertools
    from .pipelinesim import belady_fills, brute_min_fills
    n = 0
    bad = None
    L = 7 if tier == "thorough" else 6
    for length in range(0, L + 1):
        for seq in itertools.product(range(3), repeat=length):
            for cap in range(0, 3):
                n += 1
                if belady_fills(list(seq), cap) != brute_min_fills(seq, cap):
                    bad = (seq, cap)
    lines = []
    code = 0
    if bad is not None:
        lines.append(f"HARNESS-FAULT reference model (MIN with bypass) disagrees with exhaustive search on {bad}")
        code = 2
    cov = {"evaluations": 0, "distinct_nontrivial": 0,
           "reference_model_cross_check": f"Belady-MIN-with-bypass == exhaustive search over replacement decisions on all "
                                          f"{n} (sequence over 3 lines of length <= {L}, capacity 0-2) instances"}
    return code, cov, lines


REGISTRY["C17"]["extra"] = _c17_extra
