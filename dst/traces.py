"""Trace oracles (C16): header, one row per traced access, stamp order, addressing.

`expect` comes from the kernel interpreter (kernels.run_kernel): per (rank, outer point) what the
co-iterations of that loop instance fetched, computed by a shadow merge on raw coordinate lists.
"""
import bisect


def parse(text):
    lines = text.splitlines()
    if not lines:
        return None, []
    header = lines[0].split(",")
    rows = []
    for ln in lines[1:]:
        rows.append([_num(x) for x in ln.split(",")])
    return header, rows


def _num(x):
    try:
        return int(x)
    except ValueError:
        try:
            return float(x)
        except ValueError:
            return x


def expected_header(order, rank):
    i = order.index(rank)
    return [r + "_pos" for r in order[:i + 1]] + order[:i + 1] + ["fiber_pos"]


def _is_prefix(a, b):
    return len(a) <= len(b) and b[:len(a)] == a


def judge_trace(rank, typ, header, rows, expect, order, report):
    """report(oracle, detail, known=None) is called for each problem found"""
    i = order.index(rank)
    name = f"{rank}-{typ}"
    if header is None:
        # a trace whose loop was never entered may be empty (no header, no rows)
        entered = any(k[0] == rank for k in expect)
        if entered and _should_have_rows(rank, typ, expect):
            report("C16.header", f"trace {name} is empty although its loop ran")
        return
    if header != expected_header(order, rank):
        report("C16.header", f"trace {name} has header {header}, expected {expected_header(order, rank)}")
        return
    width = 2 * (i + 1) + 1
    groups = {}
    gorder = []
    prev = None
    for r in rows:
        if len(r) != width:
            report("C16.row-shape", f"trace {name}: row {r} has {len(r)} fields, header has {width}")
            return
        stamp = tuple(r[:i + 1])
        point = tuple(r[i + 1:2 * i + 2])
        pos = r[-1]
        if prev is not None:
            if stamp < prev or (typ == "iter" and stamp <= prev):
                report("C16.stamp-order", f"trace {name}: stamp {stamp} follows {prev}")
                return
        prev = stamp
        key = point[:-1]
        if key not in groups:
            groups[key] = []
            gorder.append(key)
        groups[key].append((point[-1], pos))
    # every group must belong to a loop instance that ran, and every loop instance must be covered
    insts = {k[1]: v for k, v in expect.items() if k[0] == rank}
    for key in gorder:
        if key not in insts:
            report("C16.addressing", f"trace {name}: rows carry outer point {key}, no loop over rank {rank} ran there")
            return
    for key, elist in insts.items():
        e = elist[0]
        got = groups.get(key, [])
        _judge_group(name, typ, key, got, e, report)


def _should_have_rows(rank, typ, expect):
    for k, elist in expect.items():
        if k[0] != rank:
            continue
        e = elist[0]
        if typ == "iter" and e["iter"]:
            return True
        s = e["labels"].get(typ)
        if s is not None and s.consumed:
            return True
    return False


def _judge_group(name, typ, key, got, e, report):
    coords = [c for c, _ in got]
    if typ == "iter":
        if coords != e["iter"]:
            report("C16.one-row-per-access",
                   f"trace {name} at {key}: rows for coordinates {coords}, loop bodies ran for {e['iter']}")
            return
        top = e["top"]
        if e["is_out"] or e["nf"] > 1:
            # the loop iterates a lazy fiber (populate / co-iteration result): the element's index in
            # the sequence that fiber produces
            seq = top.coords
            for c, pos in got:
                if not (isinstance(pos, int) and 0 <= pos < len(seq) and seq[pos] == c):
                    report("C16.position", f"trace {name} at {key}: coordinate {c} reported at position {pos} of the "
                                           f"iterated sequence {seq}")
                    return
        else:
            _positions(name, key, got, top, report)
        return
    if typ in e["labels"]:
        s = e["labels"][typ]
        # every element the co-iteration fetched is an access: the ones it compared / matched and the
        # look-ahead element it had read when the other side ran out
        need = list(s.consumed) + list(s.pending)
        if coords != need:
            report("C16.one-row-per-access",
                   f"trace {name} at {key}: rows for coordinates {coords}; the co-iteration accessed {list(s.consumed)}"
                   + (f" and had fetched {s.pending} when the other side ran out" if s.pending else ""))
            return
        if getattr(s, "lookup", False):
            for c, pos in got:
                if s.stored is not None and c in s.stored and not (0 <= pos < len(s.stored) and s.stored[pos] == c):
                    report("C16.position", f"trace {name} at {key}: follower lookup of {c} reports position {pos}, "
                                           f"fiber stores {s.stored}")
                    return
            return
        _positions(name, key, got, s, report)
        return
    if typ in ("populate_read_0", "populate_write_0") and e["is_out"]:
        _judge_dest(name, typ, key, got, e, report)
        return
    # a label that does not exist for this loop instance must have no rows
    if got:
        report("C16.one-row-per-access", f"trace {name} at {key}: {len(got)} rows for a label this loop does not have")


def _positions(name, key, got, s, report):
    for c, pos in got:
        if s.stored is not None:
            ok_prop = isinstance(pos, int) and 0 <= pos < len(s.stored) and s.stored[pos] == c
            if ok_prop:
                continue
            ok_pres = isinstance(pos, int) and 0 <= pos < len(s.coords) and s.coords[pos] == c
            if ok_pres:
                report("C16.position", f"trace {name} at {key}: coordinate {c} reported at position {pos}, the fiber stores "
                                       f"{s.stored} (position counts only the non-empty elements)",
                       known="position-skips-explicit-defaults")
            else:
                report("C16.position", f"trace {name} at {key}: coordinate {c} reported at position {pos}, "
                                       f"the fiber stores {s.stored}")
            return
        else:
            seq = s.coords
            if not (isinstance(pos, int) and 0 <= pos < len(seq) and seq[pos] == c):
                report("C16.position", f"trace {name} at {key}: coordinate {c} reported at position {pos} of the "
                                       f"co-iteration result {seq}")
                return


def _judge_dest(name, typ, key, got, e, report):
    """destination side of a populate: exact when only appending / updating, order+completeness when inserting"""
    offered = list(e["top"].consumed) if e.get("top") is not None else []
    offered = e["iter"] if e["iter"] else offered
    kept = e["kept"]
    zb = list(e["z_before"])
    if len(kept) != len(offered):
        return
    inserting = bool(zb) and bool(offered) and offered[0] < max(zb)
    kept_coords = [c for c, k in zip(offered, kept) if k]
    coords = [c for c, _ in got]
    if inserting:
        if typ == "populate_write_0":
            missing = [c for c in kept_coords if c not in coords]
            if missing:
                report("C16.dest-complete", f"trace {name} at {key}: no write row for kept coordinates {missing}")
        return
    # replay the destination fiber: present before, inserted when offered, removed again when not kept
    cur = sorted(zb)
    want_rows = []
    for c, k in zip(offered, kept):
        existed = c in cur
        if not existed:
            bisect.insort(cur, c)
        idx = cur.index(c)
        if typ == "populate_write_0":
            if k:
                want_rows.append((c, idx))
        else:
            if existed:
                want_rows.append((c, idx))
        if not k:
            cur.remove(c)
    if coords != [c for c, _ in want_rows]:
        what = "write rows" if typ == "populate_write_0" else "read rows"
        report("C16.one-row-per-access", f"trace {name} at {key}: {what} for {coords}, the loop "
                                         f"{'kept' if typ == 'populate_write_0' else 'found already present'} "
                                         f"{[c for c, _ in want_rows]}")
        return
    for (c, pos), (_, want) in zip(got, want_rows):
        if pos != want:
            report("C16.position", f"trace {name} at {key}: access to {c} reports position {pos}, "
                                   f"its index in the destination fiber is {want}")
            return
