"""File seam: an interposer presented to library modules as their `open` / `os` / FileReadBackwards.

* every file event (open / write / flush / close / remove / read-open) gets a global sequence number;
* write-mode handles keep data in a private buffer until flush/close: unflushed data is never
  visible to a reader, whatever its size (worst-case buffering);
* a fault can be armed at event index n: OSError(ENOSPC) (the call fails, the process goes on) or
  SimAbort (the call is abandoned as if the process had been interrupted there; a close/flush that
  is aborted leaves a torn file: only a prefix of the buffered data reaches the disk);
* it tracks open handles, files created and files removed.

Real files live in a per-run scratch directory; third-party readers (file_read_backwards, yaml)
read those real files.
"""
import builtins
import errno
import os as _os


class SimAbort(Exception):
    """the simulated process was interrupted at a file event"""


class SimFS:
    def __init__(self):
        self.n = 0
        self.log = []            # [n, kind, basename, extra]
        self.fault_at = None     # event index
        self.fault_kind = None   # "enospc" | "abort" | "eio"
        self.fired = []          # faults that actually fired
        self.open_handles = {}
        self.created = set()
        self.removed = set()
        self.written = set()     # paths opened for writing/appending

    # ---- control
    def arm(self, at, kind="enospc"):
        self.fault_at = at
        self.fault_kind = kind

    def disarm(self):
        self.fault_at = None
        self.fault_kind = None

    def reset_counters(self):
        self.n = 0
        self.log = []
        self.written = set()

    def _event(self, kind, path, extra=None):
        self.n += 1
        self.log.append([self.n, kind, _os.path.basename(str(path)), extra])
        if self.fault_at is not None and self.n == self.fault_at:
            k = self.fault_kind
            self.fired.append([self.n, k, kind, _os.path.basename(str(path))])
            self.fault_at = None
            if k == "abort":
                raise SimAbort(f"abort at file event {self.n} ({kind} {_os.path.basename(str(path))})")
            if k == "eio":
                raise OSError(errno.EIO, "simulated I/O error")
            raise OSError(errno.ENOSPC, "simulated: no space left on device")

    # ---- the seam
    def open(self, path, mode="r", *a, **k):
        path = str(path)
        if "w" in mode or "a" in mode or "+" in mode or "x" in mode:
            self._event("open-" + ("w" if "w" in mode else "a"), path)
            self.written.add(path)
            existed = _os.path.exists(path)
            real = builtins.open(path, mode, *a, **k)   # truncation / creation is immediate
            real.close()
            if not existed:
                self.created.add(path)
            h = _WHandle(self, path)
            self.open_handles[id(h)] = path
            return h
        self._event("open-r", path)
        real = builtins.open(path, mode, *a, **k)
        h = _RHandle(self, path, real)
        self.open_handles[id(h)] = path
        return h

    def remove(self, path):
        path = str(path)
        self._event("remove", path)
        _os.remove(path)
        self.removed.add(path)

    def os_shim(self):
        fs = self

        class _OS:
            path = _os.path
            sep = _os.sep

            @staticmethod
            def remove(p):
                return fs.remove(p)

            def __getattr__(self, name):
                return getattr(_os, name)
        return _OS()

    def frb(self, real_cls):
        """logging wrapper around file_read_backwards.FileReadBackwards"""
        fs = self

        class _FRB:
            def __init__(self, path, *a, **k):
                fs._event("open-rb", path)
                self._real = real_cls(path, *a, **k)
                self._path = str(path)
                fs.open_handles[id(self)] = self._path

            def __enter__(self):
                self._real.__enter__()
                return self

            def __exit__(self, *e):
                fs.open_handles.pop(id(self), None)
                return self._real.__exit__(*e)

            def __iter__(self):
                return iter(self._real)

            def readline(self):
                return self._real.readline()

            def close(self):
                fs.open_handles.pop(id(self), None)
                return self._real.close()
        return _FRB


class _WHandle:
    def __init__(self, fs, path):
        self.fs = fs
        self.path = path
        self.buf = []
        self.closed = False

    def write(self, data):
        self.fs._event("write", self.path, len(data))
        self.buf.append(data)
        return len(data)

    def _commit(self, torn=False):
        data = "".join(self.buf)
        self.buf = []
        if torn:
            # a torn write: only a prefix reaches the disk; where it is cut depends (deterministically)
            # on the event number, and never on a line boundary if that can be avoided
            cut = (len(data) * ((self.fs.n * 7 + 3) % 11 + 1)) // 12
            while 0 < cut < len(data) and data[cut - 1] == "\n":
                cut += 1
            data = data[:cut]
        if data:
            with builtins.open(self.path, "a") as f:
                f.write(data)

    def flush(self):
        try:
            self.fs._event("flush", self.path)
        except SimAbort:
            self._commit(torn=True)
            raise
        self._commit()

    def close(self):
        if self.closed:
            return
        self.closed = True
        self.fs.open_handles.pop(id(self), None)
        try:
            self.fs._event("close", self.path)
        except SimAbort:
            self._commit(torn=True)
            raise
        except OSError:
            # the close failed: buffered data is lost
            self.buf = []
            raise
        self._commit()

    def __enter__(self):
        return self

    def __exit__(self, et, ev, tb):
        if et is not None and issubclass(et, SimAbort):
            # interrupted while the handle was open: whatever was buffered is lost
            self.closed = True
            self.buf = []
            self.fs.open_handles.pop(id(self), None)
            return False
        self.close()
        return False


class _RHandle:
    def __init__(self, fs, path, real):
        self.fs = fs
        self.path = path
        self.real = real

    def __enter__(self):
        return self

    def __exit__(self, *e):
        self.close()
        return False

    def close(self):
        self.fs.open_handles.pop(id(self), None)
        self.real.close()

    def __iter__(self):
        return iter(self.real)

    def __getattr__(self, name):
        return getattr(self.real, name)
