"""KernelSim — loop nests, Metrics sessions, traces and their consumers (C06, C15, C16, C19).

Events:
    ["case", case]                       operands of one einsum (built with the real constructors)
    ["run", flow]                        execute one dataflow with collection off (C06)
    ["session", spec]                    one Metrics session around a kernel (C15 / C16 / C19)
"""
import copy
import os

import fibertree.core.metrics as MM
import fibertree.model.compute as MC
from fibertree import Fiber, Payload, Tensor, CoordPayload
from fibertree.core.metrics import Metrics
from fibertree.model.compute import Compute

from .core import WorldBase, Violation, digest_of
from . import observe as ob
from . import kernels as K
from .simfs import SimFS, SimAbort
from . import traces as TR
from fibertree.model.intersect import TwoFingerIntersector, SkipAheadIntersector, LeaderFollowerIntersector

THRESHOLDS = [2, 3, 5, 7, 64, 1000]
TRACE_KINDS = ["iter", "intersect", "populate", "populate_read", "populate_write"]


class Skip(Exception):
    pass


def all_reg(order, nlabels=6):
    reg = []
    for r in order:
        reg.append([r, "iter"])
        for l in range(nlabels):
            reg.append([r, f"intersect_{l}"])
        for l in range(2):
            reg.append([r, f"populate_{l}"])
            reg.append([r, f"populate_read_{l}"])
            reg.append([r, f"populate_write_{l}"])
    return reg


class KernelSim(WorldBase):
    name = "KernelSim"

    @classmethod
    def gen_config(cls, prop, rng, tier):
        cfg = {"mode": prop, "max_events": 400,
               "explicit": 0.0,
               "max_shape": (rng.choice([2, 3, 4, 5]) if prop == "C06" else rng.choice([2, 3, 4]))
               + (rng.choice([0, 1, 2]) if tier == "thorough" else 0)}
        if prop == "C06":
            cfg["explicit"] = rng.choice([0.0, 0.0, 0.15])
            cfg["max_flows"] = rng.choice([12, 30, 60])
        if prop == "C15":
            cfg["history"] = rng.choice([0, 1, 1, 2, 3, 4, 6])
            cfg["faults"] = rng.choice(["none", "mixed", "mixed", "heavy"])
            cfg["explicit"] = rng.choice([0.0, 0.0, 0.1])
        if prop == "C16":
            cfg["explicit"] = rng.choice([0.0, 0.0, 0.0, 0.15])
        return cfg

    def __init__(self, prop, cfg, scratch):
        super().__init__(prop, cfg, scratch)
        self.fs = SimFS()
        MM.open = self.fs.open
        MC.open = self.fs.open
        self.case = None
        self.tensors = None
        self.ref = None
        self.plan_q = None
        self.first = {}          # reference results of first-session runs, keyed by target id
        self.off = {}
        self.nsess = 0
        self.kexec = 0
        self.cur_index = 0
        self.sweep = {}
        self.held_dumps = []

    def V(self, prop, oracle, culprit, detail):
        if prop == self.prop:
            raise Violation(prop, oracle, culprit, detail)
        self.probe(f"foreign:{oracle}")

    # ------------------------------------------------------------------ generation
    def generate(self, streams):
        if self.plan_q is None:
            self.plan_q = self._plan(streams)
        if not self.plan_q:
            return None
        return self.plan_q.pop(0)

    def _plan(self, st):
        g = st["gen"]
        f = st["fault"]
        cfg = self.cfg
        case = K.gen_case(g, max_shape=cfg["max_shape"], explicit=cfg.get("explicit", 0.0))
        evs = [["case", case]]
        if self.prop == "C06":
            flows = K.all_flows(case, g, max_flows=cfg["max_flows"], spellings=True)
            out, ops = K.case_spec(case)
            cut = g.randint(1, max(1, len(flows) - 1)) if g.random() < 0.5 else None
            if g.random() < 0.35:
                flows = [dict(fl, always_swizzle=True) for fl in flows]
            # tiled executions whose output keeps its un-tiled rank (populated once per tile, tile after tile)
            flows = [dict(fl, z_untiled=True) if fl.get("tile") and "splits" not in fl["tile"] and not fl["tile"].get("relative") and g.random() < 0.4 else fl
                     for fl in flows]
            scan_at = g.randrange(len(flows)) if flows and g.random() < 0.4 else None
            for i, flow in enumerate(flows):
                if scan_at is not None and i == scan_at:
                    evs.append(["scan", {"name": g.choice(ops)[0]}])
                    if g.random() < 0.5:
                        evs.append(["badappend", {"name": g.choice(ops)[0], "row": g.randrange(4), "back": g.randint(0, 2)}])
                if cut is not None and i == cut and g.random() < 0.3:
                    idxs_ = sorted(case["shapes"])
                    evs.append(["grow", {"index": g.choice(idxs_), "writes": [[g.randrange(8) for _ in range(3)] for _ in range(g.randint(1, 3))],
                                         "v": g.choice([1, 2, -1])}])
                    for fl in g.sample(flows[:cut], min(cut, 3)):
                        evs.append(["run", fl])
                elif cut is not None and i == cut:
                    # the program updates an operand in place between two executions
                    nm, idx = g.choice(ops)
                    evs.append(["touch", {"name": nm, "point": [g.randrange(8) for _ in idx], "v": g.choice([1, 2, -1, 3])}])
                    # ... and some of the dataflows it already used are used again
                    for fl in g.sample(flows[:cut], min(cut, 3)):
                        evs.append(["run", fl])
                evs.append(["run", flow])
            return evs
        if self.prop == "C15":
            flows = K.all_flows(case, g, tilings=g.random() < 0.3)
            tflow = dict(g.choice(flows))
            dyn = [fl for fl in flows if fl.get("tile") and "splits" in fl["tile"]]
            if dyn and g.random() < 0.5:
                tflow = dict(g.choice(dyn))
            tflow["body"] = {"mul": g.choice(["pp", "pp", "sp", "ps"]), "acc": g.choice(["iadd", "iadd", "add_assign", "radd"])}
            target = self._gen_session(g, case, tflow, role="target", prefix="tgt")
            if tflow.get("tile") and "splits" in tflow["tile"] and g.random() < 0.6:
                # the partitioned rank itself is traced although no loop of the kernel walks it:
                # building the partitions (from a list or from a leader fiber's coordinates) is not an iteration
                target["reg"] = target["reg"] + [[tflow["tile"]["rank"], "iter", False]]
            evs.append(["session", dict(target, role="first")])
            evs.append(["session", dict(target, role="off")])
            for h in range(cfg["history"]):
                if g.random() < 0.2 and len(tflow["order"]) >= 2:
                    # an earlier session that projected one rank onto another (records a rank match) and
                    # was left in some state; only its after-effects on the target matter
                    src, dst = g.sample(tflow["order"], 2)
                    evs.append(["projhist", {"src": src, "dst": dst,
                                             "end": g.choice(["abandon", "abandon", "raise", "normal"]),
                                             "prefix": g.choice(["tgt", "hist"])}])
                    continue
                hflow = g.choice(flows)
                s = self._gen_session(g, case, hflow, role="history",
                                      prefix=g.choice(["tgt", "tgt", "hist", "tgt-x"]))
                self._gen_faults(f, s, cfg["faults"])
                evs.append(["session", s])
            target_ev = ["session", dict(target, role="target", ncu=g.choice(THRESHOLDS), release_at=g.randint(0, 12))]
            mark = len(evs)
            if g.random() < 0.3:
                B, Kk = g.randint(1, 3), g.randint(2, 6)
                ent = [[[b, k], g.choice([1, 2, 3])] for b in range(B) for k in range(Kk) if g.random() < 0.6]
                idiom = g.choice([1, 2])
                evs.append(["proj", {"dims": [B, Kk], "ent": ent, "off": g.choice([0, 1, 3]), "interval": None, "idiom": idiom,
                                     "start_pos": None, "ncu": g.choice(THRESHOLDS), "dense_outer": False,
                                     "dst": "M", "prebuilt": g.random() < 0.6}])
            if g.random() < 0.3:
                nd = g.randint(1, 2)
                dims = [g.randint(2, 4) for _ in range(nd)]
                ent = [[list(pt), g.choice([1, 2, 3])] for pt in __import__("itertools").product(*[range(d) for d in dims])
                       if g.random() < 0.6]
                evs.append(["rename", {"dims": dims, "ent": ent, "old": ["X", "Y"][:nd], "new": ["P", "Q"][:nd],
                                       "via": g.choice(["setRankIds", "setRankIds", "fromFiber"])}])
            if g.random() < 0.25:
                SM, SK = g.randint(1, 4), g.randint(1, 5)
                mk = lambda: [[[m_, k_], g.choice([1, 2, 3, -1])] for m_ in range(SM) for k_ in range(SK) if g.random() < 0.6]
                evs.append(["lateon", {"dims": [SM, SK], "a": mk(), "b": mk(), "on_at": g.randrange(0, 3), "trace": g.random() < 0.5}])
            if g.random() < 0.4:
                kinds = ["add_bb", "add_bs", "add_sb", "mul_bb", "mul_bs", "mul_sb", "iadd_b", "iadd_s", "imul_b", "imul_s",
                         "set_b", "set_s"]
                evs.append(["payops", {"init": [g.choice([0, 0, 1, 2, -1, 3]) for _ in range(g.randint(2, 4))],
                                       "ops": [[g.choice(kinds), g.randrange(8), g.randrange(8), g.randrange(8),
                                                g.choice([0, 0, 1, 2, -2])] for _ in range(g.randint(1, 12))]}])
            if g.random() < 0.4:
                # tiles arrive in increasing coordinate order (what the position shortcut assumes)
                S = g.randint(6, 40)
                cs = sorted(g.sample(range(S), g.randint(2, min(S, 12))))
                ntiles = g.randint(1, 4)
                cuts = sorted(g.sample(range(1, len(cs)), min(ntiles - 1, len(cs) - 1)))
                tiles, lo = [], 0
                for hi in cuts + [len(cs)]:
                    tiles.append([[c, g.choice([1, 2, 3])] for c in cs[lo:hi]])
                    lo = hi
                init = [[c, g.choice([1, 2, 5])] for c in sorted(g.sample(range(S), g.randint(0, min(S, 5))))]
                evs.append(["tilepop", {"S": S, "init": init, "tiles": [t for t in tiles if t],
                                        "regmask": g.randrange(1, 16), "startpos": g.random() < 0.75,
                                        "ncu": g.choice([None, None] + list(THRESHOLDS))}])
            # the other sessions of the program (projected walks, renamed tensors, straight-line payload programs, tiled
            # updates) run either before the target session - then they are part of "whatever ran before" - or after it
            if g.random() < 0.5:
                evs.append(target_ev)
            else:
                evs.insert(mark, target_ev)
            return evs
        if self.prop == "C16":
            flows = K.all_flows(case, g, tilings=g.random() < 0.3)
            flow = g.choice(flows)
            reg = [x + [False] for x in all_reg(flow["order"])]
            warm = g.random() < 0.25
            if g.random() < 0.2 and len(flow["order"]) >= 2:
                # an earlier session of the program projected one of these ranks onto another and was left behind
                src, dst = g.sample(flow["order"], 2)
                evs.append(["projhist", {"src": src, "dst": dst, "end": g.choice(["abandon", "raise", "normal"]),
                                         "prefix": g.choice(["s", "hist"])}])
            for t in THRESHOLDS:
                evs.append(["session", {"role": "sweep", "flow": flow, "prefix": "s", "reg": reg, "ncu": t,
                                        "end": "normal", "warmup": warm}])
            if g.random() < 0.5:
                # the program changes the threshold while the kernel runs (rows are already waiting): same files
                evs.append(["session", {"role": "sweep", "flow": flow, "prefix": "s", "reg": reg, "ncu": g.choice([64, 1000]),
                                        "end": "normal", "warmup": warm,
                                        "ncu_switch": [g.randint(1, 30), g.choice([2, 3, 5])]}])
            if g.random() < 0.5:
                # a kernel over a flattened rank (tuple coordinates, Metrics.associateShape)
                M, Kk, N = g.randint(1, 3), g.randint(1, 3), g.randint(1, 4)
                ent = [[[m, k, n], g.choice([1, 2, 3])] for m in range(M) for k in range(Kk) for n in range(N)
                       if g.random() < 0.6]
                to = g.random() < 0.5
                for t in (2, 1000, g.choice(THRESHOLDS)):
                    evs.append(["flat", {"dims": [M, Kk, N], "ent": ent, "ncu": t, "traced_outer": to}])
                if g.random() < 0.5:
                    # ... and another tensor whose flattened rank has the same name but another shape, in a later session
                    M2, K2 = g.randint(1, 3), g.choice([k for k in (1, 2, 3, 4, 5) if k != Kk])
                    ent2 = [[[m, k, n], g.choice([1, 2, 3])] for m in range(M2) for k in range(K2) for n in range(N)
                            if g.random() < 0.7]
                    for t in (2, g.choice(THRESHOLDS)):
                        evs.append(["flat", {"dims": [M2, K2, N], "ent": ent2, "ncu": t, "traced_outer": to}])
            if g.random() < 0.3:
                S = g.randint(3, 12)
                mkc = lambda: sorted(g.sample(range(S), g.randint(1, S)))
                rs = []
                for _ in range(g.randint(1, 3)):
                    lo = g.choice([None, g.randrange(S)])
                    hi = g.choice([None, g.randint((lo or 0) + 1, S + 2)])
                    rs.append([lo, hi])
                evs.append(["lazyrange", {"a": mkc(), "b": mkc(), "ranges": rs, "ncu": g.choice(THRESHOLDS)}])
            if g.random() < 0.4:
                S = g.randint(2, 7)
                mk = lambda: [[c, g.choice([1, 2, 3])] for c in range(S) if g.random() < 0.6]
                evs.append(["lazytime", {"S": S, "a": mk(), "b": mk(), "two": g.random() < 0.6, "ncu": g.choice(THRESHOLDS)}])
            if g.random() < 0.5:
                # projected fibers (project_i traces), the two idioms the library's tests use under collection
                B, Kk = g.randint(1, 3), g.randint(2, 7)
                expl = cfg.get("explicit", 0.0)
                ent = [[[b, k], (0 if g.random() < expl else g.choice([1, 2, 3]))] for b in range(B) for k in range(Kk)
                       if g.random() < 0.6]
                off = g.choice([0, 1, 3])
                iv = None
                if g.random() < 0.5:
                    lo = g.randint(0, Kk + off)
                    iv = [lo, g.randint(lo + 1, Kk + off + 2)]
                idiom = g.choice([1, 2, 3])
                dstrank = g.choice(["M", "M", "K"])
                prebuilt = g.random() < 0.3
                midreg = g.random() < 0.35
                dense_outer = False
                sp = g.choice([None, 0, 1]) if (idiom == 1 and iv is None) else None
                if idiom == 3:
                    # a traced plain walk resumed at a position (optionally over a coordinate range)
                    sp = g.choice([0, 1, 1, 2])
                    # (the range may end before the fiber does: the walk then stops early)
                    iv = None
                    if g.random() < 0.5:
                        lo = g.randint(0, Kk)
                        iv = [lo, g.choice([Kk + 1, g.randint(lo + 1, Kk + 1)])]
                    dense_outer = g.random() < 0.4
                    if dense_outer:
                        sp = g.choice([None, 0])
                for t in (2, 1000, g.choice(THRESHOLDS)):
                    evs.append(["proj", {"dims": [B, Kk], "ent": ent, "off": off, "interval": iv, "idiom": idiom,
                                         "start_pos": sp, "ncu": t, "dense_outer": idiom == 3 and dense_outer,
                                         "dst": dstrank, "prebuilt": idiom in (1, 2) and prebuilt,
                                         "midreg": idiom == 3 and midreg}])
            if False and g.random() < 0.5:
                # convolution by projection: project_i traces, matched ranks.  DISABLED: under collection the
                # library needs the source rank matched to the destination rank *before* the destination rank is
                # registered (the kernel must call Metrics.matchRanks itself or tick the projection); I could not
                # establish the intended idiom with certainty, and a wrong idiom would be a false-alarm generator.
                W, I = g.randint(1, 3), g.randint(2, 6)
                wv = [[r, g.choice([1, 2, 3])] for r in range(W) if g.random() < 0.8]
                iv = [[h, g.choice([0, 1, 2, 3]) if g.random() < cfg.get("explicit", 0.0) * 2 + 0.05 else g.choice([1, 2, 3])]
                      for h in range(I) if g.random() < 0.7]
                for t in (2, 1000, g.choice(THRESHOLDS)):
                    evs.append(["conv", {"W": W, "I": I, "w": wv, "i": iv, "ncu": t}])
            creg = [x[:2] + [True] for x in reg]
            for _ in range(2):
                evs.append(["session", {"role": "consume", "flow": flow, "prefix": "c", "reg": creg,
                                        "ncu": g.choice(THRESHOLDS), "mask": g.getrandbits(48), "end": "normal"}])
            evs.append(["session", {"role": "consume", "flow": flow, "prefix": "c", "reg": creg,
                                    "ncu": g.choice(THRESHOLDS), "mask": 0, "end": "normal", "premature_end": True}])
            if g.random() < 0.5:
                # the consumer asks for its in-memory traces only after a first pass of the kernel
                evs.append(["session", {"role": "consume", "flow": flow, "prefix": "c", "reg": creg, "warmup": True,
                                        "ncu": g.choice(THRESHOLDS), "mask": g.getrandbits(48), "end": "normal"}])
            if g.random() < 0.4:
                # the program updates an operand in place (an element somewhere in the middle) and measures again
                out_, ops_ = K.case_spec(case)
                for _ in range(g.randint(1, 2)):
                    nm, idx = g.choice(ops_)
                    evs.append(["touch", {"name": nm, "point": [g.randrange(8) for _ in idx], "v": g.choice([1, 2, 3])}])
                for t in (2, g.choice(THRESHOLDS)):
                    evs.append(["session", {"role": "sweep", "flow": flow, "prefix": "s", "reg": reg, "ncu": t,
                                            "end": "normal"}])
                evs.append(["session", {"role": "consume", "flow": flow, "prefix": "c", "reg": creg,
                                        "ncu": g.choice(THRESHOLDS), "mask": g.getrandbits(48), "end": "normal"}])
            return evs
        if self.prop == "C19":
            return evs + self._plan_c19(g, case) + self._plan_c19_pairs(g) + self._plan_c19_swaps(g)
        raise NotImplementedError(self.prop)

    def _plan_c19(self, g, case):
        out, ops = K.case_spec(case)
        idxs = sorted(case["shapes"])
        cands = [v for v in idxs if len([1 for _, idx in ops if v in idx]) == 2]
        if not cands:
            return []
        v = g.choice(cands)
        orders = [list(o) for o in __import__("itertools").permutations(idxs) if o.index(v) <= 2]
        order = g.choice(orders)
        evs = []
        for model in ("two-finger", "skip-ahead", "leader-follower"):
            flow = {"order": order, "style": "leader-follower" if model == "leader-follower" else "and", "tile": None}
            masks = list(range(16)) + [(1 << 48) - 1] + [g.getrandbits(48) for _ in range(4)]
            for m in masks:
                evs.append(["session", {"role": "isect", "flow": flow, "prefix": "i", "rank": v, "model": model,
                                        "mask": m, "reg": [], "end": "normal"}])
            # the consumer asks for its traces only after a first pass of the kernel has run in the session
            for m in (0, (1 << 48) - 1, g.getrandbits(48)):
                evs.append(["session", {"role": "isect", "flow": flow, "prefix": "i", "rank": v, "model": model,
                                        "mask": m, "reg": [], "end": "normal", "warmup": True}])
        return evs

    def _plan_c19_pairs(self, g):
        """consecutive fibers given directly as coordinate lists (either side may be empty) under 1-2 dense outer loops"""
        evs = []
        for _ in range(2):
            n = g.randint(1, 5)
            S = g.randint(1, 8)
            kinds = ["rand", "rand", "empty_a", "empty_b", "same", "disjoint", "long"]
            pairs = []
            for _ in range(n):
                k = g.choice(kinds)
                A = sorted(g.sample(range(S), g.randint(0, S)))
                B = sorted(g.sample(range(S), g.randint(0, S)))
                if k == "empty_a":
                    A = []
                elif k == "empty_b":
                    B = []
                elif k == "same":
                    B = list(A)
                elif k == "disjoint":
                    B = [c for c in range(S) if c not in A]
                elif k == "long":
                    A = A[:1]
                pairs.append([A, B])
            outer = g.choice([1, 1, 2])
            masks = list(range(min(16, 1 << n))) + [(1 << 48) - 1, g.getrandbits(48)]
            for model in ("two-finger", "skip-ahead", "leader-follower"):
                for m in masks:
                    evs.append(["pairs", {"pairs": pairs, "outer": outer, "model": model, "mask": m}])
            # no outer rank at all: the intersected rank is the outermost one, every fiber has the same (empty) upper point;
            # fibers are then only told apart by handing them over one at a time
            for model in ("two-finger", "skip-ahead", "leader-follower"):
                evs.append(["pairs", {"pairs": pairs, "outer": 0, "model": model, "mask": (1 << 48) - 1}])
                evs.append(["pairs", {"pairs": pairs, "outer": outer, "model": model, "mask": g.choice([0, (1 << 48) - 1]),
                                      "badcall": True}])
                evs.append(["pairs", {"pairs": pairs, "outer": g.choice([1, 2]), "model": model, "mask": (1 << 48) - 1,
                                      "rival": True}])
            if g.random() < 0.6:
                # the same fibers walked tile-wise: only coordinates below hi are wanted
                hi = g.randint(1, S)
                for model in ("two-finger", "skip-ahead"):
                    for m in (0, (1 << 48) - 1, g.getrandbits(48)):
                        evs.append(["pairs", {"pairs": pairs, "outer": outer, "model": model, "mask": m, "hi": hi}])
        return evs

    def _plan_c19_swaps(self, g):
        evs = []
        for _ in range(2):
            nl = g.randint(1, 6)
            S = g.randint(1, 7)
            lists = [sorted(g.sample(range(S), g.randint(1, S))) for _ in range(nl)]
            if g.random() < 0.5:
                # all coordinates distinct across the lists (no ties between heads)
                pool = list(range(8))
                g.shuffle(pool)
                nl = g.randint(2, 5)
                cuts = sorted(g.sample(range(1, 8), nl - 1))
                lists = [sorted(pool[lo:hi]) for lo, hi in zip([0] + cuts, cuts + [8])]
            for radix in (2, 3, 4, "inf"):
                for lat in (1, 2, 5, "N"):
                    evs.append(["swaps", {"lists": lists, "radix": radix, "latency": lat,
                                          "depth": g.choice([0, 0, 1]), "vals": g.randrange(1, 9)}])
        return evs

    def _gen_session(self, g, case, flow, role, prefix):
        order = flow["order"]
        full = all_reg(order)
        r = g.random()
        if r < 0.3:
            reg = full
        elif r < 0.4:
            reg = []
        else:
            reg = [x for x in full if g.random() < g.choice([0.2, 0.5, 0.8])]
        reg = [x + [bool(g.random() < 0.15)] for x in reg]     # consumable?
        return {"role": role, "flow": flow, "prefix": prefix, "reg": reg,
                "ncu": g.choice(THRESHOLDS + [None]), "end": "normal"}

    def _gen_faults(self, f, s, level):
        if level == "none":
            return
        p = {"mixed": 0.5, "heavy": 0.85}[level]
        if f.random() >= p:
            return
        kind = f.choice(["body", "body_abandon", "oserr", "oserr_abandon", "undrained", "abandon", "break", "break", "hold"])
        if kind == "hold":
            # the earlier session also starts a dense walk over an operand, leaves it part-way and KEEPS the iterator; the
            # session ends normally. The iterator is dropped later - possibly in the middle of the target session
            s["hold_dense"] = {"steps": f.randint(1, 3), "op": f.randrange(3)}
        if kind == "break":
            # loop bodies of the earlier session leave their loops early at these steps; the session ends normally
            s["break_at"] = sorted({f.randint(1, 25) for _ in range(f.randint(1, 4))})
        if kind.startswith("body"):
            s["abort_at"] = f.randint(1, 25)
        if kind.startswith("oserr"):
            s["fail_at"] = f.randint(1, 40)
            s["fail_kind"] = f.choice(["enospc", "eio"])
        if kind.endswith("abandon"):
            s["end"] = "abandon"
        if kind == "undrained":
            s["end"] = "undrained"
            if not any(x[2] for x in s["reg"]) and s["reg"]:
                s["reg"][0][2] = True

    # ------------------------------------------------------------------ execution
    def execute(self, ev):
        self.steps += 1
        kind = ev[0]
        self.sched.append([kind, ev[1].get("role") if kind == "session" else None])
        try:
            if kind == "case":
                return self.ev_case(ev[1])
            if kind == "pairs":
                return self.ev_pairs(ev[1])
            if kind == "flat":
                return self.ev_flat(ev[1])
            if kind == "projhist":
                return self.ev_projhist(ev[1])
            if kind == "conv":
                return self.ev_conv(ev[1])
            if kind == "tilepop":
                return self.ev_tilepop(ev[1])
            if kind == "proj":
                return self.ev_proj(ev[1])
            if kind == "payops":
                return self.ev_payops(ev[1])
            if kind == "rename":
                return self.ev_rename(ev[1])
            if kind == "lazytime":
                return self.ev_lazytime(ev[1])
            if kind == "lateon":
                return self.ev_lateon(ev[1])
            if kind == "lazyrange":
                return self.ev_lazyrange(ev[1])
            if kind == "swaps":
                return self.ev_swaps(ev[1])
            if self.case is None:
                raise Skip("no case")
            if kind == "run":
                return self.ev_run(ev[1])
            if kind == "touch":
                return self.ev_touch(ev[1])
            if kind == "scan":
                return self.ev_scan(ev[1])
            if kind == "badappend":
                return self.ev_badappend(ev[1])
            if kind == "grow":
                return self.ev_grow(ev[1])
            if kind == "session":
                return self.ev_session(ev[1])
            raise Skip("unknown")
        except Skip as e:
            return {"status": "skipped", "why": str(e)}

    def ev_case(self, case):
        self.case = case
        self.tensors = K.build_tensors(case)
        out, _ = K.case_spec(case)
        if out:
            # the declared, still empty output of the program (used by executions that always swizzle)
            self.tensors["__Z__"] = Tensor(rank_ids=list(out), shape=[case["shapes"][i] for i in out])
        self.ref = K.dense(case)
        self.snap = {n: ob.snapshot(t) for n, t in self.tensors.items()}
        return {"family": case["family"], "ref_points": len(self.ref)}

    def ev_touch(self, a):
        """between two executions the program updates one operand in place (a new non-zero value at a point inside its
        shape); every later dataflow must compute with the operand as it is now"""
        nm = a["name"]
        t = (self.tensors or {}).get(nm)
        if t is None:
            raise Skip("no such operand")
        out, ops = K.case_spec(self.case)
        idx = dict(ops)[nm]
        pt = [c % self.case["shapes"][i] for c, i in zip(a["point"], idx)]
        if len(pt) != len(idx) or a["v"] == 0:
            raise Skip("point")
        r = t.getPayloadRef(*pt)
        r <<= a["v"]
        vals = [e for e in self.case["vals"][nm] if list(e[0]) != pt] + [[pt, a["v"]]]
        self.case = dict(self.case, vals=dict(self.case["vals"], **{nm: sorted(vals)}))
        self.ref = K.dense(self.case)
        self.snap[nm] = ob.snapshot(t)
        self.sweep.pop("files", None)        # traces of later sessions are compared among themselves
        self.probe("operand_updated_between_runs")
        return {"touched": nm}

    def ev_grow(self, a):
        """between two executions one index variable gets one more value: every operand that has it is given the larger
        shape (Tensor.setShape) and new elements at the new coordinate; later executions see the larger problem"""
        x = a["index"]
        if self.case is None or x not in self.case["shapes"]:
            raise Skip("index")
        if any(self.tensors[nm].getShape(authoritative=True) is None for nm, _ in K.case_spec(self.case)[1]):
            raise Skip("operands without a declared shape")
        out, ops = K.case_spec(self.case)
        newc = self.case["shapes"][x]
        shapes = dict(self.case["shapes"], **{x: newc + 1})
        vals = {nm: [list(e) for e in self.case["vals"][nm]] for nm in self.case["vals"]}
        for nm, idx in ops:
            if x not in idx:
                continue
            t = self.tensors[nm]
            t.setShape([shapes[i] for i in idx])
            for w in a["writes"]:
                pt = [(newc if i == x else w[k % len(w)] % shapes[i]) for k, i in enumerate(idx)]
                r = t.getPayloadRef(*pt)
                r <<= a["v"]
                vals[nm] = [e for e in vals[nm] if list(e[0]) != pt] + [[pt, a["v"]]]
            self.snap[nm] = ob.snapshot(t)
        self.case = dict(self.case, shapes=shapes, vals={k: sorted(v) for k, v in vals.items()})
        if out:
            self.tensors["__Z__"] = Tensor(rank_ids=list(out), shape=[shapes[i] for i in out])
            self.snap["__Z__"] = ob.snapshot(self.tensors["__Z__"])
        self.ref = K.dense(self.case)
        self.sweep.pop("files", None)
        self.probe("problem_grown_between_runs")
        return {"index": x, "size": newc + 1}

    def ev_badappend(self, a):
        """between two executions the program tries to append out of order to a row of an operand: the library
        rejects it, and the operand is as before"""
        t = (self.tensors or {}).get(a["name"])
        if t is None or not isinstance(t.getRoot(), Fiber):
            raise Skip("no such operand")
        f = t.getRoot()
        while f.payloads and isinstance(f.payloads[a["row"] % len(f.payloads)], Fiber):
            f = f.payloads[a["row"] % len(f.payloads)]
        if not f.coords or not isinstance(f.coords[-1], int):
            raise Skip("no leaf row")
        before = ob.snapshot(t)
        try:
            f.append(f.coords[-1] - a.get("back", 0), 9)
        except AssertionError:
            self.fault("rejected:append")
        except Exception as e:
            raise Skip(f"append raised {type(e).__name__}")
        else:
            raise Skip("accepted")
        if ob.snapshot(t) != before:
            self.V(self.prop, f"{self.prop}.operand-disturbed", "badappend",
                   f"a rejected append to a row of operand {a['name']} changed the operand")
        self.probe("rejected_append_between_runs")
        return {}

    def ev_scan(self, a):
        """between two executions the program walks an operand with plain loops (e.g. to print or checksum it);
        nothing of that may matter to a later execution"""
        t = (self.tensors or {}).get(a["name"])
        if t is None:
            raise Skip("no such operand")

        def walk(f):
            n = 0
            for c, p in f:
                n += 1
                if isinstance(p, Fiber):
                    n += walk(p)
            return n
        n = walk(t.getRoot()) if isinstance(t.getRoot(), Fiber) else 0
        self.probe("operand_walked_between_runs")
        return {"elements": n}

    def _check_flow(self, flow):
        case = self.case
        idxs = sorted(case["shapes"])
        tile = flow.get("tile")
        want = sorted(j for i in idxs for j in ((i + ".1", i + ".0") if tile and i == tile["rank"] else (i,)))
        if sorted(flow["order"]) != want:
            raise Skip("flow does not fit case")
        if tile and "splits" not in tile and not (1 <= tile["step"] <= case["shapes"][tile["rank"]]):
            raise Skip("tile step")
        if tile and "splits" in tile and (not tile["splits"] or tile["splits"][0] != 0):
            raise Skip("tile splits")

    def _operands_unchanged(self, culprit):
        for n, t in self.tensors.items():
            if ob.snapshot(t) != self.snap[n]:
                self.V(self.prop, f"{self.prop}.operand-disturbed", culprit, f"operand {n} changed by the kernel")
                self.snap[n] = ob.snapshot(t)

    # ---- C06
    def ev_run(self, flow):
        self._check_flow(flow)
        self.kexec += 1
        try:
            z, zr = K.run_kernel(self.case, self.tensors, flow)
        except Exception as e:
            self.V("C06", "C06.no-exception", "run", f"{type(e).__name__}: {str(e)[:100]} in {flow}")
            return {"status": f"exc:{type(e).__name__}"}
        got = K.untile_content(self.case, flow, zr, K.z_content(z))
        if got != self.ref:
            diff = {str(k): (got.get(k), self.ref.get(k)) for k in set(got) | set(self.ref) if got.get(k) != self.ref.get(k)}
            self.V("C06", "C06.result", "run",
                   f"{self.case['family']} {flow}: output differs from dense result at {dict(list(diff.items())[:4])} (kernel, dense)")
        root = ob.root_of(z)
        if isinstance(root, Fiber):
            errs = ob.wellformed(root, len(z.ranks), "z") + ob.mirror(z, "z")
            if errs:
                self.V("C06", "C06.output-wellformed", "run", "; ".join(errs[:3]))
        self._operands_unchanged("run")
        if flow.get("tile"):
            self.probe("tiled_run")
        self.probe("style:" + flow.get("style", "and"))
        return {"points": len(got)}

    # ---- sessions
    def ev_session(self, s):
        flow = s["flow"]
        self._check_flow(flow)
        role = s["role"]
        self.nsess += 1
        self.kexec += 1
        fs = self.fs
        prefix = os.path.join(self.scratch, s["prefix"])
        res = {"role": role}
        counts = K.Counts()
        err = None
        z = zr = None
        if role == "off":
            assert not Metrics.isCollecting() or True
            # a collection left on by an abandoned session is part of "whatever ran before";
            # the off-run is always scheduled before the history, in the pristine state
            try:
                z, zr = K.run_kernel(self.case, self.tensors, flow, counts)
            except Exception as e:
                err = f"{type(e).__name__}"
            self.off[s["prefix"]] = {"content": K.z_content(z) if z is not None else None,
                                    "struct": ob.snapshot(z, with_ranks=False) if z is not None else None,
                                    "err": err}
            return {"role": role, "err": err}
        fs.reset_counters()
        fs.disarm()
        if s.get("fail_at"):
            fs.arm(s["fail_at"], s.get("fail_kind", "enospc"))
        expect = {} if self.prop in ("C16", "C19") else None
        hook = None
        batches = {}
        hook_n = [0]
        isect = None
        if role == "consume":
            mask = s.get("mask", 0)

            def hook(kind, info):
                i = hook_n[0]
                hook_n[0] += 1
                if (mask >> (i % 48)) & 1:
                    self._drain(s["reg"], batches)
                    self.probe("consumer_drained_mid_kernel")
        if role == "target" and getattr(self, "held_gens", None) and s.get("release_at") is not None:
            rel = s["release_at"]

            def hook(kind, info):
                i = hook_n[0]
                hook_n[0] += 1
                if i == rel and self.held_gens:
                    # an iterator an earlier session left suspended goes away now (the program drops its last reference)
                    for g_ in self.held_gens:
                        g_.close()
                    self.held_gens = []
                    self.probe("held_walk_of_an_earlier_session_released_mid_session")
        if role == "sweep" and s.get("ncu_switch"):
            sw_at, sw_to = s["ncu_switch"]

            def hook(kind, info):
                i = hook_n[0]
                hook_n[0] += 1
                if i == sw_at:
                    Metrics.setNumCachedUses(sw_to)
                    self.probe("flush_threshold_changed_while_rows_were_waiting")
        if role == "isect":
            isect = self._isect_setup(s, flow)
            mask = s.get("mask", 0)

            early = [bool((mask >> 47) & 1)]

            def hook(kind, info):
                if early[0]:
                    # a consumer that drains before anything was traced: its first batch is empty
                    early[0] = False
                    self._isect_drain(isect)
                    self.probe("isect_empty_first_batch")
                if kind != "loop-end" or info["rank"] != s["rank"]:
                    return
                i = hook_n[0]
                hook_n[0] += 1
                if (mask >> (i % 48)) & 1:
                    self._isect_drain(isect)
        try:
            Metrics.beginCollect(prefix if role != "isect" else None)
            if s.get("ncu"):
                Metrics.setNumCachedUses(s["ncu"])
            if s.get("warmup"):
                # the traces are requested only after a first pass of the kernel has run in this session
                K.run_kernel(self.case, self.tensors, flow, K.Counts())
                self.probe("traces_registered_after_warmup")
            for rank, typ, cons in s["reg"]:
                both = cons and ((self.prop == "C15" and hash_stable(rank + typ) % 2 == 0) or role == "consume")
                if both and (hash_stable(typ + rank) + s.get("mask", 0)) % 2 == 0:
                    Metrics.trace(rank, typ)       # registered as file first, then as consumable
                    Metrics.trace(rank, typ, consumable=True)
                    continue
                Metrics.trace(rank, typ, consumable=bool(cons))
                if both:
                    Metrics.trace(rank, typ)       # consumable first, then file
            if isect is not None:
                for typ in isect["types"]:
                    Metrics.trace(s["rank"], typ, consumable=True)
            z, zr = K.run_kernel(self.case, self.tensors, flow, counts, abort_at=s.get("abort_at"), expect=expect, break_at=s.get("break_at"),
                                 hook=hook)
            if s.get("break_at"):
                self.fault("loop-left-early")
            if s.get("hold_dense"):
                self._hold_dense(s["hold_dense"])
            if role == "consume" and s.get("premature_end"):
                # the program calls endCollect() too early (rows are still waiting for the consumer): the call is turned
                # away, the consumer drains, and the session is ended again - nothing is lost, nothing comes twice
                try:
                    Metrics.endCollect()
                except AssertionError:
                    self.fault("endCollect-rejected-undrained")
                    self.probe("endcollect_rejected_then_retried")
                except Exception:
                    pass
                if Metrics.isCollecting():
                    self._drain(s["reg"], batches)
            elif role == "consume":
                self._drain(s["reg"], batches)
            if isect is not None:
                self._isect_drain(isect)
        except K.BodyAbort as e:
            err = "BodyAbort"
            self.fault("body-exception")
        except OSError as e:
            err = "OSError"
            self.fault("oserror-in-kernel")
        except Exception as e:
            err = f"{type(e).__name__}:{str(e)[:80]}"
        end = s.get("end", "normal")
        end_err = None
        if end == "abandon":
            self.fault("session-abandoned")
        else:
            if end != "undrained":
                for rank, typ, cons in s["reg"]:
                    if cons and Metrics.isCollecting():
                        try:
                            Metrics.consumeTrace(rank, typ)
                        except Exception:
                            pass
            try:
                Metrics.endCollect()
            except OSError:
                end_err = "OSError"
                self.fault("oserror-in-endCollect")
            except AssertionError:
                end_err = "AssertionError"
                self.fault("endCollect-rejected-undrained")
            except Exception as e:
                end_err = type(e).__name__
        fired = list(fs.fired)
        fs.fired = []
        fs.disarm()
        if fired:
            for f in fired:
                self.fault("fs:" + f[1])
        raw_dump = Metrics.dump()
        dump = copy.deepcopy(raw_dump) if raw_dump is not None else None
        if self.prop == "C15":
            # a program that measures several configurations keeps each report and tabulates them afterwards:
            # the report of an earlier session stays what it was when a later session begins and runs
            for n0, held, asread, then_ops in self.held_dumps:
                try:
                    now_ops = [Compute.numOps(held, op) for op in ("mul", "update", "add")]
                except Exception:
                    now_ops = None
                if now_ops != then_ops:
                    self.V("C15", "C15.isolated-counts", "session",
                           f"Compute.numOps on the report of session {n0} gave {then_ops} (mul/update/add) for that session's "
                           f"counts; after session {self.nsess} the same report gives {now_ops}")
                if held != asread:
                    self.V("C15", "C15.isolated-counts", "session",
                           f"the report dump() returned after session {n0} read {asread} then; after session {self.nsess} "
                           f"the same object reads {held}")
            if raw_dump is not None and end != "abandon" and not end_err and not Metrics.isCollecting():
                try:
                    ops_then = [Compute.numOps(raw_dump, op) for op in ("mul", "update", "add")]
                except Exception:
                    ops_then = None
                self.held_dumps.append((self.nsess, raw_dump, copy.deepcopy(raw_dump), ops_then))
                self.held_dumps = self.held_dumps[-4:]
        files = {}
        for p in sorted(fs.written):
            if os.path.exists(p):
                with open(p) as fh:
                    files[os.path.basename(p)] = fh.read()
        out = {"content": K.z_content(z) if z is not None else None,
               "struct": ob.snapshot(z, with_ranks=False) if z is not None else None,
               "dump": dump, "files": files, "err": err, "end_err": end_err,
               "counts": [counts.mul, counts.upd, counts.add], "bodies": dict(counts.bodies),
               "file_events": fs.n}
        res.update({"err": err, "end_err": end_err, "files": len(files), "file_events": fs.n,
                    "counts": out["counts"]})
        if role in ("sweep", "consume"):
            self._judge_c16(s, out, expect, batches)
        if role == "isect":
            self._judge_c19(s, out, expect, isect)
            res["n"] = isect["obj"].getNumIntersects() if isect.get("obj") is not None else None
        if role == "first":
            self.first[s["prefix"]] = out
            self._judge_exact(s, out, counts)
        elif role == "target":
            self._judge_target(s, out, counts)
        elif role == "history" and not (s.get("abort_at") or s.get("fail_at") or s.get("break_at") or s.get("hold_dense")) \
                and s.get("end", "normal") == "normal" and not fired:
            # an undisturbed earlier session is a session like any other: exact counts, whatever ran before it
            # (its trace files are read here, as a user would between two sessions)
            self._judge_exact(s, out, counts)
            self.probe("history_session_judged")
            if s["prefix"] == "tgt-x":
                # a finished session under a prefix that merely begins like the target's: its files are its own
                kf = dict(getattr(self, "kept_files", {}))
                # (files of an even earlier tgt-x session that this one did not register again keep their old content
                #  only if this session did not write them)
                kf = {k: v for k, v in kf.items() if k not in out["files"]}
                kf.update({k: v for k, v in out["files"].items() if k.startswith("tgt-x-")})
                self.kept_files = kf
        if role == "history" and s["prefix"] == "tgt-x" and not (
                not (s.get("abort_at") or s.get("fail_at") or s.get("break_at") or s.get("hold_dense")) and s.get("end", "normal") == "normal" and not fired):
            self.kept_files = {}        # a later, disturbed session under the same prefix owns those files now
        self._operands_unchanged("session")
        return res

    def _judge_exact(self, s, out, counts):
        if self.prop != "C15":
            return
        if out["err"] or out["end_err"]:
            self.V("C15", "C15.no-exception", "session", f"clean session raised {out['err']} / {out['end_err']}")
            return
        comp = (out["dump"] or {}).get("Compute", {})
        got = [comp.get("payload_mul", 0), comp.get("payload_update", 0), comp.get("payload_add", 0)]
        # the documented way to read the counts
        try:
            via = [Compute.numOps(out["dump"], op) for op in ("mul", "update", "add")]
        except Exception as e:
            self.V("C15", "C15.op-counts", "session",
                   f"Compute.numOps(Metrics.dump(), op) raised {type(e).__name__}: {str(e)[:40]} for a kernel that executed "
                   f"mul/update/add = {out['counts']} ({s['flow']})")
            via = got
        if via != got:
            self.V("C15", "C15.op-counts", "session", f"Compute.numOps gives {via}, the dump holds {got}")
        if got != out["counts"]:
            self.V("C15", "C15.op-counts", "session",
                   f"Metrics reports mul/update/add = {got}, the kernel executed {out['counts']} ({s['flow']})")
        for rank, typ, cons in s["reg"]:
            if typ != "iter":
                continue
            fn = f"{s['prefix']}-{rank}-iter.csv"
            path = os.path.join(self.scratch, fn)
            file_traced = (not cons) or (hash_stable(rank + typ) % 2 == 0)
            if not file_traced or not os.path.exists(path):
                continue
            try:
                n = Compute.numIters(path)
            except Exception as e:
                self.V("C15", "C15.iter-count", "session", f"numIters({fn}) raised {type(e).__name__}")
                continue
            want = counts.bodies.get(rank, 0)
            if n != want:
                self.V("C15", "C15.iter-count", "session",
                       f"numIters({fn}) = {n}, loop bodies executed at rank {rank} = {want}")
            if want == 0:
                self.probe("traced_rank_never_entered")

    def _judge_target(self, s, out, counts):
        if self.prop != "C15":
            return
        self._judge_exact(s, out, counts)
        for name, text in sorted(getattr(self, "kept_files", {}).items()):
            path = os.path.join(self.scratch, name)
            now = open(path).read() if os.path.exists(path) else None
            if now != text:
                self.V("C15", "C15.isolated-traces", "session",
                       f"trace file {name} of an earlier, finished session (prefix tgt-x) "
                       f"{'is gone' if now is None else 'was rewritten'} after a later session with prefix tgt")
        if getattr(self, "kept_files", None):
            self.probe("related_prefix_files_checked")
        ref = self.first.get(s["prefix"])
        off = self.off.get(s["prefix"])
        if off is not None:
            if out["content"] != off["content"] or out["struct"] != off["struct"]:
                self.V("C15", "C15.transparent", "session",
                       f"output with collection on differs from output with collection off ({s['flow']})")
            if bool(out["err"]) != bool(off["err"]):
                self.V("C15", "C15.transparent", "session",
                       f"exception in one mode only: on={out['err']} off={off['err']}")
        if ref is not None:
            if out["dump"] != ref["dump"]:
                self.V("C15", "C15.isolated-counts", "session",
                       f"dump() after a history of {self.nsess - 3} sessions {out['dump']} != first-session dump {ref['dump']}")
            if out["files"] != ref["files"]:
                names = sorted(set(out["files"]) | set(ref["files"]))
                bad = [n for n in names if out["files"].get(n) != ref["files"].get(n)]
                n0 = bad[0]
                a, b = out["files"].get(n0), ref["files"].get(n0)
                self.V("C15", "C15.isolated-traces", "session",
                       f"trace {n0} differs from the first-session run: "
                       f"{'missing' if a is None else str(len(a.splitlines())) + ' lines'} vs "
                       f"{'missing' if b is None else str(len(b.splitlines())) + ' lines'}")
            if self.nsess > 3:
                self.probe("target_after_history")

    def _hold_dense(self, h):
        names = sorted(n for n in self.tensors if n != "__Z__")
        t = self.tensors[names[h["op"] % len(names)]]
        root = t.getRoot()
        if not isinstance(root, Fiber) or not isinstance(root.getShape(all_ranks=False), int):
            return
        g_ = iter(root.iterShape())
        for _ in range(h["steps"]):
            next(g_, None)
        self.__dict__.setdefault("held_gens", []).append(g_)
        self.fault("walk-left-suspended")

    def _quiesce(self):
        """a part of the program that is not measuring anything runs with collection off: a session an earlier part
        left dangling (abandoned, or its endCollect() rejected for an undrained trace) is ended first, its undrained
        traces dropped"""
        if not Metrics.isCollecting():
            return
        self.probe("dangling_session_ended_by_later_code")
        try:
            Metrics.endCollect()
        except Exception:
            try:
                Metrics.traces = {}
                Metrics.endCollect()
            except Exception:
                pass

    # ---- C15: a tensor that was looked at under one set of rank names, renamed, and then measured
    def ev_rename(self, a):
        """walk a tensor with plain loops outside any session, rename its ranks (Tensor.setRankIds, or a bare fiber
        wrapped by Tensor.fromFiber), then run a traced plain loop nest in a session: iteration counts and the rows'
        coordinates go to the ranks' current names"""
        self._quiesce()
        dims = a["dims"]
        old_ids, new_ids = a["old"], a["new"]
        ent = [(tuple(p), v) for p, v in a["ent"]]

        def walk(f):
            n = 0
            for c, p in f:
                if isinstance(p, Fiber):
                    n += walk(p)
                else:
                    n += 1
            return n
        if a.get("via") == "fromFiber":
            t0 = Tensor(rank_ids=old_ids, shape=dims)
            for pt, v in ent:
                r = t0.getPayloadRef(*pt)
                r <<= v
            bare = t0.getRoot().copy(preserve_owner=False) if hasattr(Fiber, "copy") else t0.getRoot()
            walk(bare)
            T = Tensor.fromFiber(new_ids, bare, shape=dims)
        else:
            T = Tensor(rank_ids=old_ids, shape=dims)
            for pt, v in ent:
                r = T.getPayloadRef(*pt)
                r <<= v
            walk(T.getRoot())
            T.setRankIds(new_ids)
        self.nsess += 1
        self.kexec += 1
        bodies = {r: 0 for r in new_ids}
        prefix = os.path.join(self.scratch, f"rn{self.nsess}")
        err = None
        iters = {}
        self.fs.reset_counters()
        try:
            Metrics.beginCollect(prefix)
            for r in new_ids:
                Metrics.trace(r, "iter")

            def nest(f, d):
                for c, p in f:
                    bodies[new_ids[d]] += 1
                    if isinstance(p, Fiber):
                        nest(p, d + 1)
            nest(T.getRoot(), 0)
        except Exception as e:
            err = f"{type(e).__name__}: {str(e)[:60]}"
        finally:
            try:
                Metrics.endCollect()
            except Exception as e:
                err = err or f"endCollect {type(e).__name__}"
        self.probe("renamed_tensor_measured")
        if err:
            self.V("C15", "C15.transparent", "rename", f"the traced loop nest over the renamed tensor raised {err}")
            return {}
        for r in new_ids:
            path = f"{prefix}-{r}-iter.csv"
            n = Compute.numIters(path) if os.path.exists(path) and os.path.getsize(path) else 0
            if n != bodies[r]:
                self.V("C15", "C15.iter-count", "rename",
                       f"rank {r} (called {old_ids[new_ids.index(r)]} when the tensor was first walked, outside any "
                       f"session): numIters = {n}, loop bodies executed = {bodies[r]}")
        return {"bodies": bodies}

    # ---- C16: when a lazy co-iteration object is constructed does not matter
    def ev_lateon(self, a):
        """the program switches collection on inside the body of a loop that is already running (the outer populate and
        co-iteration were started before beginCollect()): same result as with collection off, no exception. Counts and
        traces of such a session are not judged (what they should hold is not stated anywhere)."""
        self._quiesce()
        SM, SK = a["dims"]
        A = Tensor(rank_ids=["M", "K"], shape=[SM, SK])
        B = Tensor(rank_ids=["M", "K"], shape=[SM, SK])
        for t, ent in ((A, a["a"]), (B, a["b"])):
            for pt, v in ent:
                r = t.getPayloadRef(*pt)
                r <<= v
        prefix = os.path.join(self.scratch, "lateon")

        def kernel(on_at):
            Z = Tensor(rank_ids=["M"], shape=[SM])
            n = 0
            for m, (z_ref, (a_k, b_k)) in Z.getRoot() << (A.getRoot() & B.getRoot()):
                if on_at is not None and n == on_at:
                    Metrics.beginCollect(prefix)
                    if a.get("trace"):
                        Metrics.trace("K", "iter")
                n += 1
                for k, (av, bv) in a_k & b_k:
                    z_ref += av * bv
            return ob.content(Z.getRoot())
        ref = kernel(None)
        err = got = None
        self.nsess += 1
        self.kexec += 1
        try:
            got = kernel(a["on_at"])
        except Exception as e:
            err = f"{type(e).__name__}: {str(e)[:80]}"
        finally:
            if Metrics.isCollecting():
                self.probe("collection_switched_on_inside_a_running_loop")
                try:
                    Metrics.endCollect()
                except Exception as e:
                    err = err or f"endCollect {type(e).__name__}: {str(e)[:60]}"
        if self.prop != "C15":
            return {}
        if err:
            self.V("C15", "C15.transparent", "lateon",
                   f"collection switched on in the body of step {a['on_at']} of a running outer loop: the kernel raised {err}; "
                   f"with collection off it computes {ref}")
        elif got != ref:
            self.V("C15", "C15.transparent", "lateon",
                   f"collection switched on in the body of step {a['on_at']} of a running outer loop: result {got}, with "
                   f"collection off {ref}")
        return {"points": len(ref)}

    def ev_lazyrange(self, a):
        """a co-iteration walked over coordinate ranges (tile after tile, each tile its own session): every `iter` row
        carries the element's coordinate and its index in the sequence the co-iteration produces - whatever range of
        it is walked - and the stamps increase"""
        self._quiesce()
        A, B = a["a"], a["b"]
        common = [c for c in A if c in B]
        for n, (lo, hi) in enumerate(a["ranges"]):
            a_k = Fiber(list(A), [1] * len(A))
            b_k = Fiber(list(B), [2] * len(B))
            a_k.getRankAttrs().setId("K")
            b_k.getRankAttrs().setId("K")
            prefix = os.path.join(self.scratch, f"lr{n}")
            self.nsess += 1
            self.kexec += 1
            seen, err = [], None
            try:
                Metrics.beginCollect(prefix)
                Metrics.setNumCachedUses(a["ncu"])
                Metrics.trace("K")
                for k, _ in (a_k & b_k).iterRange(lo, hi):
                    seen.append(k)
            except Exception as e:
                err = f"{type(e).__name__}: {str(e)[:60]}"
            finally:
                try:
                    Metrics.endCollect()
                except Exception as e:
                    err = err or f"endCollect {type(e).__name__}"
            if self.prop != "C16":
                continue
            want = [(c, i) for i, c in enumerate(common) if (lo is None or c >= lo) and (hi is None or c < hi)]
            if err:
                self.V("C16", "C16.no-exception", "lazyrange", f"(a & b).iterRange({lo}, {hi}) under collection: {err}")
                continue
            try:
                with open(prefix + "-K-iter.csv") as fh:
                    lines = fh.read().splitlines()
            except OSError:
                lines = []
            rows = [[int(x) for x in ln.split(",")] for ln in lines[1:]]
            got = [(r[-2], r[-1]) for r in rows]
            stamps = [r[0] for r in rows]
            if seen != [c for c, _ in want] or got != want or stamps != sorted(set(stamps)):
                self.V("C16", "C16.rows", "lazyrange",
                       f"a = {A}, b = {B}, walk of (a & b).iterRange({lo}, {hi}): bodies at {seen}, iter rows (coordinate, "
                       f"position) {got} with stamps {stamps}; the co-iteration produces {common}, so the rows are {want}")
            self.probe("lazy_fiber_walked_over_a_range")
        return {"ranges": len(a["ranges"])}

    def ev_lazytime(self, a):
        """z_m << (a_m & b_m) (or z_m << a_m), the loop object built (1) inside the session, right where it is walked,
        (2) before beginCollect(): same result, byte-identical traces"""
        S = a["S"]
        av, bv = dict(map(tuple, a["a"])), dict(map(tuple, a["b"]))

        def build():
            A = Tensor(rank_ids=["M"], shape=[S])
            B = Tensor(rank_ids=["M"], shape=[S])
            for t, vals in ((A, av), (B, bv)):
                for c in sorted(vals):
                    r = t.getPayloadRef(c)
                    r <<= vals[c]
            Z = Tensor(rank_ids=["M"], shape=[S])
            return A, B, Z

        def loop_of(A, B, Z):
            src = (A.getRoot() & B.getRoot()) if a["two"] else A.getRoot()
            return Z.getRoot() << src
        outs = []
        for early in (False, True):
            self.nsess += 1
            self.kexec += 1
            self.fs.reset_counters()
            A, B, Z = build()
            prefix = os.path.join(self.scratch, "lz")
            loop = loop_of(A, B, Z) if early else None
            err = None
            try:
                Metrics.beginCollect(prefix)
                Metrics.setNumCachedUses(a["ncu"])
                for typ in ["iter", "populate_1", "populate_read_0", "populate_write_0"] + \
                        (["intersect_2", "intersect_3"] if a["two"] else []):
                    Metrics.trace("M", typ)
                if loop is None:
                    loop = loop_of(A, B, Z)
                for m, (z_ref, v) in loop:
                    z_ref += (v[0] * v[1]) if a["two"] else v
            except Exception as e:
                err = f"{type(e).__name__}: {str(e)[:60]}"
            finally:
                try:
                    Metrics.endCollect()
                except Exception as e:
                    err = err or f"endCollect {type(e).__name__}"
            files = {}
            for p in sorted(self.fs.written):
                if os.path.exists(p):
                    with open(p) as fh:
                        files[os.path.basename(p)] = fh.read()
            outs.append((err, ob.content(Z.getRoot()), files))
        self.probe("lazy_object_built_before_session")
        if self.prop != "C16":
            return {}
        (e0, c0, f0), (e1, c1, f1) = outs
        if e0 or e1:
            if bool(e0) != bool(e1):
                self.V("C16", "C16.no-exception", "lazytime",
                       f"loop object built inside the session: {e0 or 'fine'}; built before beginCollect(): {e1 or 'fine'}")
            return {}
        if c0 != c1:
            self.V("C16", "C16.rows", "lazytime", f"results differ: {c0} (built inside) vs {c1} (built before the session)")
        if f0 != f1:
            bad = [n for n in sorted(set(f0) | set(f1)) if f0.get(n) != f1.get(n)]
            n0 = bad[0]
            self.V("C16", "C16.rows", "lazytime",
                   f"trace {n0}: {len((f0.get(n0) or '').splitlines())} lines when the populate object is built inside the "
                   f"session, {len((f1.get(n0) or '').splitlines())} lines when it is built before beginCollect() "
                   f"(a = {sorted(av)}, b = {sorted(bv)})")
        return {}

    # ---- C15: every counted payload operator, all operand spellings, zero and non-zero values
    def ev_payops(self, a):
        """a straight-line program over a few boxes: + and * in the three spellings (box.box, box.scalar, scalar.box),
        +=, *=, <<= ; run with collection off and on: same values, and mul/add/update counts equal to what ran
        (one mul per *, one add per +, += is one update plus one add unless the old value was zero, *= is one mul
        and one update, <<= is one update)"""
        self._quiesce()
        def run():
            boxes = [Payload(v) for v in a["init"]]
            want = [0, 0, 0]      # mul, update, add
            for op, i, j, k, sc in a["ops"]:
                x, y = boxes[i % len(boxes)], boxes[j % len(boxes)]
                tgt = k % len(boxes)
                if op == "add_bb":
                    boxes[tgt] = x + y
                    want[2] += 1
                elif op == "add_bs":
                    boxes[tgt] = x + sc
                    want[2] += 1
                elif op == "add_sb":
                    boxes[tgt] = sc + y
                    want[2] += 1
                elif op == "mul_bb":
                    boxes[tgt] = x * y
                    want[0] += 1
                elif op == "mul_bs":
                    boxes[tgt] = x * sc
                    want[0] += 1
                elif op == "mul_sb":
                    boxes[tgt] = sc * y
                    want[0] += 1
                elif op in ("iadd_b", "iadd_s"):
                    old = x.value
                    x += (y if op == "iadd_b" and y is not x else sc)
                    want[1] += 1
                    if old != 0:
                        want[2] += 1
                elif op in ("imul_b", "imul_s"):
                    x *= (y if op == "imul_b" and y is not x else sc)
                    want[0] += 1
                    want[1] += 1
                elif op in ("set_b", "set_s"):
                    x <<= (y if op == "set_b" and y is not x else sc)
                    want[1] += 1
            return [b.value for b in boxes], want
        off_vals, want = run()
        self.nsess += 1
        self.kexec += 1
        dump = None
        err = None
        try:
            Metrics.beginCollect(os.path.join(self.scratch, f"po{self.nsess}"))
            on_vals, _ = run()
            dump = copy.deepcopy(Metrics.dump())
        except Exception as e:
            err = f"{type(e).__name__}: {str(e)[:60]}"
        finally:
            try:
                Metrics.endCollect()
            except Exception:
                pass
        self.probe("payops")
        if err:
            self.V("C15", "C15.transparent", "payops", f"the payload program raised {err} under collection")
            return {}
        if on_vals != off_vals:
            self.V("C15", "C15.transparent", "payops", f"values with collection on {on_vals} differ from off {off_vals}")
        try:
            got = [Compute.numOps(dump, op) for op in ("mul", "update", "add")]
        except Exception as e:
            self.V("C15", "C15.op-counts", "payops", f"Compute.numOps raised {type(e).__name__}")
            return {}
        if got != want:
            self.V("C15", "C15.op-counts", "payops",
                   f"Metrics reports mul/update/add = {got}, the program executed {want}: init {a['init']}, ops {a['ops']}")
        return {"n": len(a["ops"])}

    # ---- C15: an output updated tile by tile with the documented position shortcut
    TILE_TRACES = ["iter", "populate_read_0", "populate_write_0", "populate_1"]

    def ev_tilepop(self, a):
        """for each tile: for m, (z_ref, t_val) in z_m.__lshift__(t_m, start_pos=z_m.getSavedPos()): z_ref += t_val
        run with collection off, on with nothing traced, on with a subset of rank M's traces registered:
        same result, same counts, iteration count = loop bodies"""
        self._quiesce()
        S = a["S"]
        init = {c: v for c, v in a["init"]}
        tiles = [{c: v for c, v in t} for t in a["tiles"]]
        model = dict(init)
        bodies = adds = 0
        for t in tiles:
            for c in sorted(t):
                bodies += 1
                if model.get(c, 0) != 0:
                    adds += 1
                model[c] = model.get(c, 0) + t[c]
        model = {c: v for c, v in model.items() if v != 0}

        def prepare():
            # operands are built outside the session (as a program builds its tensors before measuring)
            Z = Tensor(rank_ids=["M"], shape=[S])
            for c in sorted(init):
                r = Z.getPayloadRef(c)
                r <<= init[c]
            fibs = []
            for t in tiles:
                f = Fiber(sorted(t), [t[c] for c in sorted(t)])
                f.getRankAttrs().setId("M")
                fibs.append(f)
            return Z, fibs

        def kernel(prep):
            Z, fibs = prep
            z_m = Z.getRoot()
            n = 0
            for f in fibs:
                if a.get("startpos", True):
                    it = z_m.__lshift__(f, start_pos=z_m.getSavedPos())
                else:
                    it = z_m << f
                for m, (z_ref, t_val) in it:
                    z_ref += t_val
                    n += 1
            errs = ob.wellformed(z_m, 1)
            return ob.content(z_m), n, errs

        regs = [[], [t for i, t in enumerate(self.TILE_TRACES) if (a.get("regmask", 0) >> i) & 1]]
        results = []
        try:
            results.append(("off", kernel(prepare()), None, None))
        except Exception as e:
            results.append(("off", f"raised {type(e).__name__}: {str(e)[:60]}", None, None))
        for k, reg in enumerate(regs):
            self.fs.reset_counters()
            self.fs.disarm()
            self.nsess += 1
            prefix = os.path.join(self.scratch, f"tp{self.nsess}")
            info = None
            prep = prepare()
            try:
                Metrics.beginCollect(prefix)
                if a.get("ncu"):
                    Metrics.setNumCachedUses(a["ncu"])
                for typ in reg:
                    Metrics.trace("M", typ)
                r = kernel(prep)
                dump = Metrics.dump()
                comp = dump.get("Compute", {})
                info = [comp.get("payload_update", 0), comp.get("payload_add", 0)]
            except Exception as e:
                r = f"raised {type(e).__name__}: {str(e)[:60]}"
            finally:
                try:
                    Metrics.endCollect()
                except Exception:
                    pass
            iters = None
            if "iter" in reg and not isinstance(r, str):
                try:
                    iters = Compute.numIters(prefix + "-M-iter.csv")
                except Exception as e:
                    iters = f"raised {type(e).__name__}"
            results.append((f"on, traced {reg}", r, info, iters))
        self.probe("tilepop")
        for name, r, info, iters in results:
            if isinstance(r, str):
                self.V("C15", "C15.transparent", "tilepop", f"[{name}] the tiled update {r} ({a})")
                continue
            content, n, errs = r
            got = {pt[0]: v for pt, v in content.items()}
            if got != model or errs:
                self.V("C15", "C15.transparent", "tilepop",
                       f"[{name}] the tiled update (start_pos={a.get('startpos', True)}) gives {got}, the model {model} {errs[:1]}")
            if n != bodies:
                self.V("C15", "C15.transparent", "tilepop", f"[{name}] {n} loop bodies ran, the model says {bodies}")
            if info is not None and info != [bodies, adds]:
                self.V("C15", "C15.op-counts", "tilepop",
                       f"[{name}] Metrics reports update/add = {info}, the kernel executed {[bodies, adds]}")
            if iters is not None and iters != bodies:
                self.V("C15", "C15.iter-count", "tilepop", f"[{name}] numIters = {iters}, loop bodies = {bodies}")
        return {"bodies": bodies}

    # ---- C16
    def _drain(self, reg, batches):
        got = {}
        for rank, typ, cons in reg:
            if cons and Metrics.isCollecting():
                b = Metrics.consumeTrace(rank, typ)
                # what was delivered, as delivered (the consumer below is free to do what it likes with its rows)
                batches.setdefault((rank, typ), []).extend([list(row) for row in b])
                # a consumer may keep the batch objects it was given: what was delivered stays as delivered
                batches.setdefault("__held__", []).append((rank, typ, b, [list(row) for row in b]))
                got[(rank, typ)] = b
        # the consumer: the intersection models, fed pairwise with what was just drained
        for (rank, typ), b in got.items():
            if typ.startswith("intersect_") and int(typ.split("_")[1]) % 2 == 0:
                other = got.get((rank, f"intersect_{int(typ.split('_')[1]) + 1}"))
                if other is not None:
                    for cls_ in (TwoFingerIntersector, SkipAheadIntersector):
                        try:
                            cls_().addTraces(b, other)
                        except Exception:
                            pass
                    self.probe("consumer_fed_intersector")

    def _judge_c16(self, s, out, expect, batches):
        if self.prop != "C16":
            return
        held = batches.pop("__held__", [])
        seen = {}
        for rank, typ, b, asdelivered in held:
            if [list(r) for r in b] != asdelivered:
                self.V("C16", "C16.consumable-same-rows", "session",
                       f"a batch of {rank}-{typ} handed out by consumeTrace() with {len(asdelivered)} rows later held "
                       f"{len(b)} rows: the library kept writing into a list the consumer already owns")
            if id(b) in seen and (asdelivered or seen[id(b)]):
                self.V("C16", "C16.consumable-same-rows", "session",
                       f"consumeTrace({rank}, {typ}) handed out the same list object twice")
            seen[id(b)] = bool(asdelivered)
        if held:
            self.probe("held_batches_checked")
        if out["err"] or out["end_err"]:
            self.V("C16", "C16.no-exception", "session", f"clean session raised {out['err']} / {out['end_err']}")
            return
        order = s["flow"]["order"]
        pre = s["prefix"] + "-"
        problems = []

        def report(oracle, detail, known=None):
            problems.append((oracle, detail, known))
        for rank, typ, cons in s["reg"]:
            text = out["files"].get(f"{pre}{rank}-{typ}.csv")
            if text is None:
                report("C16.header", f"no trace file for registered trace {rank}-{typ}")
                continue
            header, rows = TR.parse(text)
            TR.judge_trace(rank, typ, header, rows, expect, order, report)
            if rows:
                self.probe("trace_rows:" + typ.rstrip("0123456789"), len(rows))
        for oracle, detail, known in problems:
            if known:
                self.V("C16", oracle + "." + known, "session", detail)
            else:
                self.V("C16", oracle, "session", detail)
        if s["role"] == "sweep":
            ref = self.sweep.get("files")
            if ref is None:
                self.sweep["files"] = out["files"]
                self.sweep["ncu"] = s.get("ncu")
            elif ref != out["files"]:
                bad = [n for n in sorted(set(ref) | set(out["files"])) if ref.get(n) != out["files"].get(n)]
                self.V("C16", "C16.flush-independent", "session",
                       f"trace {bad[0]} differs between flush thresholds {self.sweep['ncu']} and {s.get('ncu')}")
            if any(len(t.splitlines()) - 1 >= 2 * (s.get("ncu") or 1000) for t in out["files"].values()):
                self.probe("flushed_at_least_twice")
        else:
            ncmp = 0
            for (rank, typ), rows in batches.items():
                text = out["files"].get(f"{pre}{rank}-{typ}.csv")
                if text is None:
                    if rows:
                        self.V("C16", "C16.consumable-same-rows", "session",
                               f"in-memory trace {rank}-{typ} delivered {len(rows)} rows but the file trace registered "
                               f"for the same rank and type was never written")
                    continue
                ncmp += 1
                mem = "".join(",".join(str(v) for v in row) + "\n" for row in rows)
                if mem != text:
                    self.V("C16", "C16.consumable-same-rows", "session",
                           f"in-memory trace {rank}-{typ} delivered {len(rows)} rows, the file holds "
                           f"{len(text.splitlines())} lines, or their content differs")
            self.probe("consumable_compared", ncmp)

    def ev_projhist(self, a):
        """history only (never judged): a session in which a fiber of rank `src` is projected onto rank `dst`"""
        self.nsess += 1
        self.fs.reset_counters()
        self.fs.disarm()
        f = Fiber([0, 1, 3], [1, 2, 3])
        f.getRankAttrs().setId(a["src"])
        z = Fiber()
        z.getRankAttrs().setId(a["dst"])
        status = "ok"
        try:
            Metrics.beginCollect(os.path.join(self.scratch, a.get("prefix", "hist")))
            Metrics.trace(a["dst"])
            n = 0
            for c, (z_ref, v) in z << f.project(lambda c: c + 1, rank_id=a["dst"]):
                z_ref += v
                n += 1
                if a["end"] == "raise" and n == 2:
                    raise K.BodyAbort("history body raised")
            if a["end"] == "normal":
                Metrics.endCollect()
        except K.BodyAbort:
            status = "body-exception"
            self.fault("body-exception")
        except Exception as e:
            status = f"exc:{type(e).__name__}"
        if a["end"] != "normal":
            self.fault("session-abandoned")
        self.probe("history_with_rank_match")
        return {"status": status}

    def ev_flat(self, a):
        """Z[n] = sum over (m,k) of A[m,k,n], iterating the flattened rank [m,k] (tuple coordinates)"""
        M, Kk, N = a["dims"]
        A = Tensor(rank_ids=["m", "k", "n"], shape=[M, Kk, N])
        for pt, v in a["ent"]:
            r = A.getPayloadRef(*pt)
            r <<= v
        Af = A.flattenRanks(depth=0, levels=1)
        # (a list-valued rank id would put commas into the CSV header; kernels name the flattened rank)
        Af.setRankIds(["mk", "n"])
        Z = Tensor(rank_ids=["n"], shape=[N])
        rank0 = str(Af.getRankIds()[0])
        self.kexec += 1
        self.nsess += 1
        fs = self.fs
        fs.reset_counters()
        prefix = os.path.join(self.scratch, "f")
        types_n = ["iter", "populate_1", "populate_read_0", "populate_write_0"]
        exp_outer, exp_n, exp_src = [], [], []
        Metrics.beginCollect(prefix)
        err = None
        try:
            Metrics.setNumCachedUses(a["ncu"])
            Metrics.associateShape(rank0, (M, Kk))
            if a.get("traced_outer"):
                Metrics.trace(rank0, "iter")
            for t in types_n:
                Metrics.trace("n", t)
            root = Af.getRoot()
            for i, (mk, a_n) in enumerate(root):
                flat = mk[0] * Kk + mk[1]
                exp_outer.append([i, flat, root.coords.index(mk)])
                for j, (n, (z_ref, a_val)) in enumerate(Z.getRoot() << a_n):
                    exp_n.append([i, j, flat, n, j])
                    exp_src.append([flat, n, a_n.coords.index(n)])
                    z_ref += a_val
        except Exception as e:
            err = f"{type(e).__name__}: {str(e)[:80]}"
        try:
            Metrics.endCollect()
        except Exception as e:
            err = err or f"endCollect {type(e).__name__}"
        if self.prop != "C16":
            return {"err": err}
        if err:
            self.V("C16", "C16.no-exception", "flat", f"kernel over a flattened rank raised {err}")
            return {"err": err}
        files = {}
        for p in sorted(fs.written):
            if os.path.exists(p):
                with open(p) as fh:
                    files[os.path.basename(p)] = fh.read()

        def rows_of(name, ncols):
            text = files.get(name)
            if text is None:
                self.V("C16", "C16.header", "flat", f"no trace file {name}")
                return None, None
            lines = text.splitlines()
            if not lines:
                return None, []
            out = []
            for ln in lines[1:]:
                parts = ln.split(",")
                try:
                    out.append([int(x) for x in parts])
                except ValueError:
                    self.V("C16", "C16.row-shape", "flat", f"trace {name}: row {ln!r} is not a list of integers "
                                                            f"(one per header column)")
                    return lines[0].split(","), None
                if len(parts) != ncols:
                    self.V("C16", "C16.row-shape", "flat", f"trace {name}: row {ln!r} has {len(parts)} fields, header has {ncols}")
            return lines[0].split(","), out
        h, R = rows_of(f"f-n-iter.csv", 5)
        if R is not None and (exp_n or R):
            if h != [rank0 + "_pos", "n_pos", rank0, "n", "fiber_pos"]:
                self.V("C16", "C16.header", "flat", f"n-iter header {h}")
            # exact stamp values are not compared (stamps also tick on populate writes): only their order
            if [r[2:] for r in R] != [r[2:] for r in exp_n]:
                self.V("C16", "C16.one-row-per-access", "flat",
                       f"n-iter rows (coordinates, position) {[r[2:] for r in R][:6]}... differ from the loop bodies "
                       f"executed {[r[2:] for r in exp_n][:6]}... (flattened rank {rank0})")
            if any(tuple(x[:2]) >= tuple(y[:2]) for x, y in zip(R, R[1:])):
                self.V("C16", "C16.stamp-order", "flat", f"n-iter stamps are not strictly increasing: {[r[:2] for r in R][:8]}")
        h, R = rows_of(f"f-n-populate_1.csv", 5)
        if R is not None and (exp_src or R):
            got = [[r[2], r[3], r[4]] for r in R]
            if got != exp_src:
                self.V("C16", "C16.one-row-per-access", "flat",
                       f"n-populate_1 rows (flattened coordinate, n, position) {got[:6]}... expected {exp_src[:6]}...")
        if a.get("traced_outer"):
            h, R = rows_of(f"f-{rank0}-iter.csv", 3)
            if R is not None and (exp_outer or R) and [r[1:] for r in R] != [r[1:] for r in exp_outer]:
                self.V("C16", "C16.one-row-per-access", "flat", f"{rank0}-iter rows {R[:6]} expected {exp_outer[:6]}")
        fkey = ("flatfiles", repr(a["dims"]), repr(a["ent"]), bool(a.get("traced_outer")))
        ref = self.sweep.get(fkey)
        if ref is None:
            self.sweep[fkey] = files
        elif ref != files:
            bad = [n for n in sorted(set(ref) | set(files)) if ref.get(n) != files.get(n)]
            self.V("C16", "C16.flush-independent", "flat", f"trace {bad[0]} of the flattened kernel differs between flush thresholds")
        self.probe("flattened_rank_sessions")
        return {"rows": len(exp_n)}

    def ev_proj(self, a):
        """a kernel that walks projected fibers (C16, trace type project_i):
              for b, a_k in a_b:
                  idiom 1:  for m, p in a_k.project(f, rank_id="M", interval=iv, start_pos=sp): ...
                  idiom 2:  for m, p in a_k.project(f, rank_id="M", interval=iv, tick=True).iterOccupancy(tick=False): ...
        (both idioms are the ones the library's own tests use under collection).  Rows of K-project_0: one per element
        the projection delivers, in order, carrying the source element's coordinate and its position in a_k."""
        if self.prop == "C15":
            self._quiesce()
        B, Kk = a["dims"]
        off = a["off"]
        iv = tuple(a["interval"]) if a.get("interval") else None
        sp = a.get("start_pos")
        idiom = a["idiom"]
        A = Tensor(rank_ids=["B", "K"], shape=[B, Kk])
        for pt, v in a["ent"]:
            r = A.getPayloadRef(*pt)
            r <<= v
        a_b = A.getRoot()
        if sp is not None and any(len(f.coords) <= sp for f in a_b.payloads):
            raise Skip("start_pos beyond a fiber")
        self.kexec += 1
        self.nsess += 1
        fs = self.fs
        fs.reset_counters()
        prefix = os.path.join(self.scratch, "pj")
        if idiom == 3:
            return self._ev_spiter(a, A, a_b, prefix)
        dst = a.get("dst", "M")          # the projection may stay on its own rank id (dst == "K")
        inner = dst if idiom == 1 else "K"
        exp_proj, exp_outer, exp_inner = [], [], []
        got_seq, want_seq = [], []
        err = None
        prebuilt = {}
        if a.get("prebuilt"):
            # the projected views are built before the session begins and walked inside it
            for b0, ak0 in zip(a_b.coords, a_b.payloads):
                if not any(Payload.get(q) != 0 for q in ak0.payloads):
                    continue        # the outer loop never reaches an all-default fiber
                kw0 = {"trans_fn": (lambda k, off=off: k + off), "rank_id": dst}
                if iv is not None:
                    kw0["interval"] = iv
                if idiom == 1:
                    if sp is not None:
                        kw0["start_pos"] = sp
                    prebuilt[b0] = ak0.project(**kw0)
                else:
                    prebuilt[b0] = ak0.project(tick=True, **kw0)
            self.probe("projection_built_before_session")
        Metrics.beginCollect(prefix)
        try:
            Metrics.setNumCachedUses(a["ncu"])
            Metrics.trace("B", "iter")
            Metrics.trace(inner, "iter")
            Metrics.trace("K", "project_0")
            pb = 0
            for b, a_k in a_b:
                exp_outer.append([pb, b, a_b.coords.index(b)])
                stored = list(zip(a_k.coords, a_k.payloads))
                first = sp or 0
                kidx = 0          # index of the K iteration (idiom 2: every non-empty source element ticks)
                j = 0
                for pos in range(first, len(stored)):
                    k, pl = stored[pos]
                    if Payload.get(pl) == 0:
                        continue
                    m = k + off
                    if idiom == 2:
                        # (the element that ends the interval was fetched from the source too: it has an iter row)
                        exp_inner.append([pb, kidx, b, k, pos])
                    if iv is not None and m >= iv[1]:
                        break
                    if iv is None or iv[0] <= m:
                        exp_proj.append([pb, j if idiom == 1 else kidx, b, k, pos])
                        if idiom == 1:
                            exp_inner.append([pb, j, b, m, j])
                        want_seq.append((b, m, Payload.get(pl)))
                        j += 1
                    kidx += 1
                kw = {"trans_fn": (lambda k, off=off: k + off), "rank_id": dst}
                if iv is not None:
                    kw["interval"] = iv
                if b in prebuilt:
                    it = prebuilt[b] if idiom == 1 else prebuilt[b].iterOccupancy(tick=False)
                elif idiom == 1:
                    if sp is not None:
                        kw["start_pos"] = sp
                    it = a_k.project(**kw)
                else:
                    it = a_k.project(tick=True, **kw).iterOccupancy(tick=False)
                for m, pl in it:
                    got_seq.append((b, m, Payload.get(pl)))
                pb += 1
        except Exception as e:
            err = f"{type(e).__name__}: {str(e)[:80]}"
        try:
            Metrics.endCollect()
        except Exception as e:
            err = err or f"endCollect {type(e).__name__}"
        if self.prop == "C15":
            # the same walk with collection off is the model sequence: collection must be transparent
            if err:
                self.V("C15", "C15.transparent", "proj",
                       f"the walk over projected fibers raised {err} under collection (idiom {idiom}, views built "
                       f"{'before' if a.get('prebuilt') else 'inside'} the session)")
            elif got_seq != want_seq:
                self.V("C15", "C15.transparent", "proj", f"projected walk delivered {got_seq} under collection, expected {want_seq}")
            self.probe("proj_checked:c15")
            return {"err": err}
        if self.prop != "C16":
            return {"err": err}
        if err:
            self.V("C16", "C16.no-exception", "proj", f"kernel over projected fibers raised {err} ({a})")
            return {"err": err}
        if got_seq != want_seq:
            # (what project() delivers is C07's business; the trace oracle needs the kernel to be the expected one)
            self.probe("proj_sequence_differs")
            return {"err": "sequence"}
        files = {}
        for p in sorted(fs.written):
            if os.path.exists(p):
                with open(p) as fh:
                    files[os.path.basename(p)] = fh.read()
        self.probe("proj_checked:idiom%d" % idiom)

        def check(name, header, want, lag=False):
            text = files.get(name)
            if text is None:
                self.V("C16", "C16.header", "proj", f"no trace file {name}")
                return
            h, rows = TR.parse(text)
            if not want and not rows:
                return
            if h != header:
                self.V("C16", "C16.header", "proj", f"trace {name} has header {h}, expected {header} ({a})")
                return
            if lag:
                # idiom 2: the row carries the stamp current when the previous element was delivered (the library's
                # own test pins that); the property only asks for stamp order, so: not later than the element's own
                # iteration, never negative, non-decreasing
                ok = len(rows) == len(want) and all(
                    r[0] == w[0] and r[2:] == w[2:] and 0 <= r[1] <= w[1]
                    for r, w in zip(rows, want)) and all(tuple(x[:2]) <= tuple(y[:2]) for x, y in zip(rows, rows[1:]))
            else:
                ok = rows == want
            if not ok:
                i = next((i for i, (r, w) in enumerate(zip(rows, want)) if r != w and not lag), min(len(rows), len(want)))
                self.V("C16", "C16.rows", "proj",
                       f"trace {name} (idiom {idiom}, interval {iv}, start_pos {sp}): {len(rows)} rows, expected {len(want)}; "
                       f"first difference at row {i}: got {rows[i] if i < len(rows) else None}, "
                       f"expected {want[i] if i < len(want) else None} (stamp, coordinates, position); fibers {[f.coords for f in a_b.payloads]}")
        check("pj-B-iter.csv", ["B_pos", "B", "fiber_pos"], exp_outer)
        check(f"pj-{inner}-iter.csv", ["B_pos", inner + "_pos", "B", inner, "fiber_pos"], exp_inner)
        check("pj-K-project_0.csv", ["B_pos", inner + "_pos", "B", inner, "fiber_pos"], exp_proj, lag=(idiom == 2))
        return {"rows": len(exp_proj)}

    def _ev_spiter(self, a, A, a_b, prefix):
        """idiom 3: a traced plain walk that resumes at a position: a_k.__iter__(start_pos=sp) or
        a_k.iterRange(lo, hi, start_pos=sp); iter rows carry the element's real position"""
        sp = a.get("start_pos")
        rng = tuple(a["interval"]) if a.get("interval") else None
        fs = self.fs
        exp_outer, exp_inner = [], []
        err = None
        Metrics.beginCollect(prefix)
        try:
            Metrics.setNumCachedUses(a["ncu"])
            midreg = bool(a.get("midreg"))
            if not midreg:
                # (with midreg nothing at all is traced when the outer loop starts)
                Metrics.trace("B", "iter")
                Metrics.trace("K", "iter")
            pb = 0
            dense = bool(a.get("dense_outer"))
            # (a dense, element-creating walk of the outer rank - the form used for uncompressed output ranks - writes
            #  no iter rows of its own on the pinned tree; only the rows of the rank below it are judged)
            outer_it = a_b.iterShapeRef() if dense else a_b
            for b, a_k in outer_it:
                if midreg and pb == 0:
                    # the trace of the inner rank is only asked for once the outer loop is already running
                    Metrics.trace("K", "iter")
                    self.probe("trace_registered_inside_a_running_loop")
                if not dense:
                    exp_outer.append([pb, b, a_b.coords.index(b)])
                if dense and sp is not None and len(a_k.coords) <= sp:
                    pb += 1
                    continue
                j = 0
                for pos in range(sp or 0, len(a_k.coords)):
                    k, pl = a_k.coords[pos], a_k.payloads[pos]
                    if rng is not None and k >= rng[1]:
                        break
                    if Payload.get(pl) == 0 or (rng is not None and k < rng[0]):
                        continue
                    exp_inner.append([pb, j, b, k, pos])
                    j += 1
                it = a_k.iterRange(rng[0], rng[1], start_pos=sp) if rng is not None else a_k.__iter__(start_pos=sp)
                n = 0
                for k, pl in it:
                    n += 1
                if n != j:
                    self.probe("spiter_sequence_differs")
                    err = "sequence"
                pb += 1
        except Exception as e:
            err = f"{type(e).__name__}: {str(e)[:80]}"
        try:
            Metrics.endCollect()
        except Exception as e:
            err = err or f"endCollect {type(e).__name__}"
        if self.prop != "C16" or err == "sequence":
            return {"err": err}
        if err:
            self.V("C16", "C16.no-exception", "proj", f"traced walk from a start position raised {err} ({a})")
            return {"err": err}
        self.probe("proj_checked:idiom3")
        for name, header, want in (("pj-B-iter.csv", ["B_pos", "B", "fiber_pos"], exp_outer),
                                   ("pj-K-iter.csv", ["B_pos", "K_pos", "B", "K", "fiber_pos"], exp_inner)):
            if (a.get("dense_outer") or a.get("midreg")) and name == "pj-B-iter.csv":
                continue
            path = os.path.join(self.scratch, name)
            text = open(path).read() if os.path.exists(path) else None
            if text is None and a.get("midreg") and not want:
                continue         # the outer loop never ran: the inner trace was never asked for
            if text is None:
                self.V("C16", "C16.header", "proj", f"no trace file {name}")
                continue
            h, rows = TR.parse(text)
            if not want and not rows:
                continue
            if h != header or rows != want:
                i = next((i for i, (r, w) in enumerate(zip(rows, want)) if r != w), min(len(rows), len(want)))
                self.V("C16", "C16.rows", "proj",
                       f"trace {name} (walk from start_pos {sp}, range {rng}): header {h}, {len(rows)} rows, expected {len(want)}; "
                       f"first difference at row {i}: got {rows[i] if i < len(rows) else None}, expected "
                       f"{want[i] if i < len(want) else None}; fibers {[f.coords for f in a_b.payloads]}")
        return {"rows": len(exp_inner)}

    def ev_conv(self, a):
        """O[q] = sum_r W[r] * I[q + r], weight stationary, input projected onto the output rank"""
        W, I = a["W"], a["I"]
        Q = I - W + 1
        if Q < 1:
            raise Skip("no output")
        w = Tensor(rank_ids=["R"], shape=[W])
        for r, v in a["w"]:
            ref = w.getPayloadRef(r)
            ref <<= v
        i = Tensor(rank_ids=["H"], shape=[I])
        for h, v in a["i"]:
            ref = i.getPayloadRef(h)
            ref <<= v
        o = Tensor(rank_ids=["Q"], shape=[Q])
        w_r, i_h, o_q = w.getRoot(), i.getRoot(), o.getRoot()
        self.kexec += 1
        self.nsess += 1
        fs = self.fs
        fs.reset_counters()
        prefix = os.path.join(self.scratch, "cv")
        exp = {}        # r -> [(h, position of h in i_h)]
        bodies = 0
        err = None
        Metrics.beginCollect(prefix)
        try:
            Metrics.setNumCachedUses(a["ncu"])
            for rk, ty in (("R", "iter"), ("Q", "iter"), ("Q", "populate_1"), ("Q", "populate_read_0"),
                           ("Q", "populate_write_0"), ("H", "project_2")):
                Metrics.trace(rk, ty)
            for r, w_val in w_r:
                exp[r] = []
                for q, (o_ref, i_val) in o_q << i_h.project(lambda h: h - r, (0, Q), rank_id="Q"):
                    bodies += 1
                    exp[r].append((q + r, i_h.coords.index(q + r)))
                    o_ref += w_val * i_val
        except Exception as e:
            err = f"{type(e).__name__}: {str(e)[:80]}"
        try:
            Metrics.endCollect()
        except Exception as e:
            err = err or f"endCollect {type(e).__name__}"
        if self.prop != "C16":
            return {"err": err}
        if err:
            self.V("C16", "C16.no-exception", "conv", f"convolution kernel raised {err}")
            return {"err": err}
        files = {}
        for p in sorted(fs.written):
            if os.path.exists(p):
                with open(p) as fh:
                    files[os.path.basename(p)] = fh.read()
        text = files.get("cv-H-project_2.csv")
        if text is None:
            self.V("C16", "C16.header", "conv", "no file for the registered project trace")
            return {}
        header, rows = TR.parse(text)
        if bodies and header is None:
            self.V("C16", "C16.header", "conv", "project trace is empty although the projected loop ran")
        if header is not None:
            if header != ["R_pos", "Q_pos", "R", "Q", "fiber_pos"]:
                self.V("C16", "C16.header", "conv", f"project trace header {header}")
            groups = {}
            prev = None
            for row in rows:
                if len(row) != 5 or not all(isinstance(x, int) for x in row):
                    self.V("C16", "C16.row-shape", "conv", f"project trace row {row}")
                    return {}
                st = tuple(row[:2])
                if prev is not None and st < prev:
                    self.V("C16", "C16.stamp-order", "conv", f"project trace: stamp {st} follows {prev}")
                prev = st
                groups.setdefault(row[2], []).append((row[3], row[4]))
            for r, want in exp.items():
                got = groups.get(r, [])
                if [c for c, _ in got] != [c for c, _ in want]:
                    self.V("C16", "C16.one-row-per-access", "conv",
                           f"project trace under r={r}: rows for source coordinates {[c for c, _ in got]}, the projection "
                           f"delivered {[c for c, _ in want]}")
                elif got != want:
                    stored = list(i_h.coords)
                    pres = K.presented(i_h)
                    known = all(0 <= p < len(pres) and pres[p] == c for c, p in got)
                    self.V("C16", "C16.position" + (".position-skips-explicit-defaults" if known else ""), "conv",
                           f"project trace under r={r}: (coordinate, position) {got}, the source fiber stores {stored}")
        fkey = ("convfiles", repr(a["w"]), repr(a["i"]), W, I)
        ref = self.sweep.get(fkey)
        if ref is None:
            self.sweep[fkey] = files
        elif ref != files:
            bad = [n for n in sorted(set(ref) | set(files)) if ref.get(n) != files.get(n)]
            self.V("C16", "C16.flush-independent", "conv", f"trace {bad[0]} of the convolution differs between flush thresholds")
        self.probe("projection_sessions")
        if rows:
            self.probe("trace_rows:project_", len(rows))
        return {"bodies": bodies}

    # ---- C19
    def _isect_setup(self, s, flow):
        out, ops, shapes, tens = K.tiled(self.case, self.tensors, flow)
        v = s["rank"]
        base = 2 if v in out else 0
        model = s["model"]
        if model == "two-finger":
            obj, types = TwoFingerIntersector(), [f"intersect_{base}", f"intersect_{base + 1}"]
        elif model == "skip-ahead":
            obj, types = SkipAheadIntersector(), [f"intersect_{base}", f"intersect_{base + 1}"]
        else:
            obj, types = LeaderFollowerIntersector(), [f"intersect_{base}"]
        return {"obj": obj, "types": types, "rank": v, "drains": 0, "err": None}

    def _isect_drain(self, isect):
        if isect["err"]:
            return
        ts = [Metrics.consumeTrace(isect["rank"], t) for t in isect["types"]]
        isect["drains"] += 1
        if isect.get("badcall") and not isect.get("badcalled"):
            # the code around the model first hands the batch over with the wrong number of traces and is turned away;
            # it then makes the right call with the very same batch
            isect["badcalled"] = True
            try:
                if len(ts) == 1:
                    isect["obj"].addTraces(ts[0], ts[0])
                else:
                    isect["obj"].addTraces(ts[0])
            except Exception:
                self.fault("rejected:addTraces-arity")
            else:
                self.probe("wrong_arity_accepted")
        asgiven = [[list(r) for r in t] for t in ts]
        try:
            isect["obj"].addTraces(*ts)
        except Exception as e:
            isect["err"] = f"{type(e).__name__}: {str(e)[:60]}"
        if self.prop == "C19" and not isect["err"] and [[list(r) for r in t] for t in ts] != asgiven:
            self.V("C19", "C19.batching", "session",
                   f"addTraces changed the batch it was given: {asgiven[0][:3]} became {[list(r) for r in ts[0]][:3]} "
                   f"(a second model fed the same batch would count something else)")
        if isect.get("rival") and not isect.get("rivaled") and isect.get("obj") is not None \
                and any(len(t) > 0 for t in ts):
            isect["rivaled"] = True           # (only once the first model has seen its first non-empty batch)
            # another model object of the same kind, watching an intersection at another loop depth, starts now
            try:
                rival = type(isect["obj"])()
                hd = ["P_pos", "Q_pos", "X_pos", "P", "Q", "X", "fiber_pos"]
                t1 = [hd, [0, 0, 0, 0, 0, 1, 0], [0, 0, 1, 0, 0, 3, 1]]
                t2 = [hd, [0, 0, 0, 0, 0, 1, 0], [0, 0, 1, 0, 0, 2, 1], [0, 0, 2, 0, 0, 3, 2]]
                rival.addTraces(*([t1] if len(ts) == 1 else [t1, t2]))
                self.probe("rival_model_started_in_between")
            except Exception:
                pass

    def _judge_c19(self, s, out, expect, isect):
        if self.prop != "C19":
            return
        if out["err"] or out["end_err"]:
            self.V("C19", "C19.no-exception", "session", f"session raised {out['err']} / {out['end_err']}")
            return
        v = s["rank"]
        want = 0
        nf = 0
        pairs = []
        for (rank, point), elist in expect.items():
            if rank != v:
                continue
            e = elist[0]
            seqs = [e["labels"][t] for t in isect["types"] if t in e["labels"]]
            if len(seqs) != len(isect["types"]):
                continue
            nf += 1
            if s["model"] == "leader-follower":
                want += len(seqs[0].coords)
                pairs.append([seqs[0].coords])
            else:
                A, B = seqs[0].coords, seqs[1].coords
                want += (tf_ref if s["model"] == "two-finger" else sa_ref)(A, B)
                pairs.append([A, B])
        if nf == 0:
            # no intersection was executed: every batch is empty and the total must stay 0
            self.probe("isect_no_fiber")
            if isect["err"]:
                self.V("C19", "C19.batching", "session", f"{s['model']} model raised {isect['err']} on empty batches")
            elif isect["obj"].getNumIntersects() != 0:
                self.V("C19", "C19.batching", "session",
                       f"{s['model']} model reports {isect['obj'].getNumIntersects()} although no intersection ran")
            return
        mode = "per-fiber" if s["mask"] & ((1 << max(nf, 1)) - 1) == ((1 << max(nf, 1)) - 1) else \
               ("one-shot" if s["mask"] & ((1 << max(nf, 1)) - 1) == 0 else "mixed")
        self.probe("isect_schedule:" + mode)
        if nf >= 2 and mode != "per-fiber":
            self.probe("batch_spans_several_fibers")
        if isect["err"]:
            self.V("C19", "C19.batching", "session",
                   f"{s['model']} model raised {isect['err']} when fed {nf} fibers in {isect['drains']} batches "
                   f"(schedule {mode}); fibers: {pairs[:3]}")
            return
        got = isect["obj"].getNumIntersects()
        if got != want:
            self.V("C19", "C19.count" if mode == "per-fiber" else "C19.batching", "session",
                   f"{s['model']} model reports {got}, an independent merge of the raw coordinate lists gives {want} "
                   f"({nf} fibers, {isect['drains']} batches, schedule {mode}); fibers: {pairs[:3]}")

    def ev_pairs(self, a):
        """for j (, i) in dense outer loops: for k, _ in fa[j] & fb[j]; traces drained at chosen fiber boundaries"""
        pairs = a["pairs"]
        model = a["model"]
        n = len(pairs)
        self.kexec += 1
        tile_hi = a.get("hi") if model != "leader-follower" else None
        full_pairs = pairs
        if tile_hi is not None:
            # a tiled walk: for k, _ in (fa & fb).iterRange(0, hi) - the merge stops at the first match at or beyond hi;
            # the models see (and are judged on) what was accessed up to there
            pairs = [accessed_until(A, B, tile_hi) for A, B in pairs]
            self.probe("pairs_tiled_walk")
        if model == "two-finger":
            obj, types, want = TwoFingerIntersector(), ["intersect_0", "intersect_1"], sum(tf_ref(A, B) for A, B in pairs)
        elif model == "skip-ahead":
            obj, types, want = SkipAheadIntersector(), ["intersect_0", "intersect_1"], sum(sa_ref(A, B) for A, B in pairs)
        else:
            obj, types, want = LeaderFollowerIntersector(), ["intersect_0"], sum(len(A) for A, B in pairs)
        fa = [Fiber(list(A), [1] * len(A)) for A, B in full_pairs]
        fb = [Fiber(list(B), [1] * len(B)) for A, B in full_pairs]
        for f in fa + fb:
            f.getRankAttrs().setId("K")
        outer = a.get("outer", 1)
        isect = {"obj": obj, "types": types, "rank": "K", "drains": 0, "err": None, "badcall": bool(a.get("badcall")),
                 "rival": bool(a.get("rival"))}
        mask = a["mask"]
        started = [False]
        Metrics.beginCollect()
        try:
            for t in types:
                Metrics.trace("K", t, consumable=True)

            if (mask >> 47) & 1:
                self._isect_drain(isect)
                self.probe("isect_empty_first_batch")

            def inner(j):
                if model == "leader-follower":
                    it = Fiber.intersection(fa[j], fb[j], style="leader-follower")
                else:
                    it = fa[j] & fb[j]
                    if tile_hi is not None:
                        it = it.iterRange(0, tile_hi)
                for _ in it:
                    pass
                started[0] = True
                if (mask >> (j % 48)) & 1:
                    self._isect_drain(isect)
            if outer == 0:
                for j in range(n):
                    inner(j)
            elif outer == 1:
                J = Fiber(list(range(n)), [1] * n)
                J.getRankAttrs().setId("J")
                for j, _ in J:
                    inner(j)
            else:
                # two outer ranks: I (2 values) x J
                half = (n + 1) // 2
                I = Fiber([0, 1], [1, 1])
                I.getRankAttrs().setId("I")
                for i, _ in I:
                    lo, hi = (0, half) if i == 0 else (half, n)
                    if hi <= lo:
                        continue
                    J = Fiber(list(range(lo, hi)), [1] * (hi - lo))
                    J.getRankAttrs().setId("J")
                    for j, _ in J:
                        inner(j)
            if started[0]:
                self._isect_drain(isect)
            else:
                for t in types:
                    Metrics.consumeTrace("K", t)
        finally:
            try:
                Metrics.endCollect()
            except Exception:
                Metrics.traces = {}
                Metrics.endCollect()
        full = (1 << n) - 1
        mode = "per-fiber" if mask & full == full else ("one-shot" if mask & full == 0 else "mixed")
        self.probe("pairs_schedule:" + mode)
        if any((not A) != (not B) for A, B in pairs):
            self.probe("pairs_one_sided_empty_fiber")
        if isect["err"]:
            self.V("C19", "C19.batching", "pairs",
                   f"{model} model raised {isect['err']} ({n} fibers, schedule {mode}, {outer} outer ranks): {pairs}")
            return {"err": isect["err"]}
        got = obj.getNumIntersects()
        if got != want:
            self.V("C19", "C19.count" if mode == "per-fiber" else "C19.batching", "pairs",
                   f"{model} model reports {got}, an independent merge of the raw coordinate lists gives {want} "
                   f"({n} fibers, {isect['drains']} batches, schedule {mode}, {outer} outer ranks): {pairs}")
        return {"n": got}

    def ev_swaps(self, a):
        """piggy-back (pure function): Compute.numSwaps against an independent merge-round model"""
        lists = a["lists"]
        radix = float("inf") if a["radix"] == "inf" else a["radix"]
        lat = a["latency"]
        depth = a.get("depth", 0)
        self.kexec += 1

        def build(scale, zero_every=0):
            nest_lists = lists if depth == 0 else None
            t = Tensor(rank_ids=(["M", "K"] if depth == 0 else ["P", "M", "K"]), shape=([len(lists), 8] if depth == 0 else [2, len(lists), 8]))
            for p in range(1 if depth == 0 else 2):
                for m, cs in enumerate(lists):
                    for ci, c in enumerate(cs):
                        pt = (m, c) if depth == 0 else (p, m, c)
                        r = t.getPayloadRef(*pt)
                        # (never a whole list of zeros: an all-default sub-fiber is an empty fiber, not a payload value)
                        r <<= 0 if (zero_every and ci % zero_every == 1) else scale + c
            return t
        try:
            if depth == 0:
                # a row that was allocated and never filled is not a list to merge
                te = build(a["vals"])
                te.getPayloadRef(len(lists))
                ge = Compute.numSwaps(te, depth, radix, lat)
                g0 = Compute.numSwaps(build(a["vals"]), depth, radix, lat)
                if ge != g0:
                    self.V("C19", "C19.swaps", "swaps",
                           f"an allocated but empty row changes numSwaps from {g0} to {ge} (lists {lists}, radix {a['radix']}, latency {lat})")
            got = Compute.numSwaps(build(a["vals"]), depth, radix, lat)
            got2 = Compute.numSwaps(build(a["vals"] + 3), depth, radix, lat)
            got3 = Compute.numSwaps(build(a["vals"], zero_every=2), depth, radix, lat)
        except Exception as e:
            self.V("C19", "C19.swaps", "swaps", f"numSwaps raised {type(e).__name__}: {str(e)[:80]}")
            return {}
        mult = 1 if depth == 0 else 2
        # the same tensor asked again, untouched; then again after one stored coordinate was moved in place
        try:
            T = build(a["vals"])
            before = ob.snapshot(T)
            first = Compute.numSwaps(T, depth, radix, lat)
            if ob.snapshot(T) != before:
                self.V("C19", "C19.swaps", "swaps",
                       f"numSwaps(radix={a['radix']}, latency={lat}) changed the tensor it was asked about (lists {lists})")
            again = Compute.numSwaps(T, depth, radix, lat)
            if first != got or again != got:
                self.V("C19", "C19.swaps", "swaps",
                       f"numSwaps on one tensor gives {first}, then {again}; on a fresh tensor with the same content {got} "
                       f"(lists {lists}, radix {a['radix']}, latency {lat})")
            moved = None
            for li, cs in enumerate(lists):
                free = [c for c in range(8) if c not in cs]
                for ci, c in enumerate(cs):
                    lo = cs[ci - 1] if ci else -1
                    hi_ = cs[ci + 1] if ci + 1 < len(cs) else 8
                    cand = [x for x in free if lo < x < hi_]
                    if cand:
                        moved = (li, ci, cand[0])
                        break
                if moved:
                    break
            if moved and depth == 0:
                li, ci, nc = moved
                leaf = T.getRoot().getPayload(li)
                leaf[ci] = CoordPayload(nc, leaf.payloads[ci])
                lists2 = [list(cs) for cs in lists]
                lists2[li][ci] = nc
                after = Compute.numSwaps(T, depth, radix, lat)
                fresh = self._swaps_on_fresh(lists2, depth, radix, lat, a["vals"])
                if after != fresh:
                    self.V("C19", "C19.swaps", "swaps",
                           f"after coordinate {lists[li][ci]} of list {li} was moved to {nc} in place numSwaps gives {after}; "
                           f"a fresh tensor with lists {lists2} gives {fresh} (radix {a['radix']}, latency {lat})")
                self.probe("swaps_after_in_place_change")
        except Violation:
            raise
        except Exception as e:
            self.V("C19", "C19.swaps", "swaps", f"repeated numSwaps raised {type(e).__name__}: {str(e)[:80]}")
            return {}
        if got != got2 or got != got3:
            self.V("C19", "C19.swaps", "swaps",
                   f"numSwaps depends on payload values: {got} vs {got2} (other values) vs {got3} (some payloads zero) "
                   f"for lists {lists}, radix {a['radix']}, latency {lat}")
        if lat != "N":
            want = swaps_ref(lists, radix, lat) * mult
            if got != want:
                self.V("C19", "C19.swaps", "swaps",
                       f"numSwaps(radix={a['radix']}, latency={lat}, depth={depth}) = {got}, latency per list and per "
                       f"element of every merge round gives {want} for lists {lists}")
        else:
            # unbounded latency: the exact comparison count is the implementation's convention; every element
            # that enters a merge group costs at least one comparison and at most one per list of its group
            allc = [c for l in lists for c in l]
            if len(set(allc)) == len(allc):
                # all coordinates distinct: no ties, the merger's count is determined - placing a head among the
                # current heads costs one comparison per head with a smaller coordinate, plus one
                want = swaps_distinct_ref(lists, radix) * mult
                self.probe("swaps_unbounded_latency_exact")
                if got != want:
                    self.V("C19", "C19.swaps", "swaps",
                           f"numSwaps(radix={a['radix']}, latency=N, depth={depth}) = {got}; merging round by round, each head "
                           f"placed at the cost of the heads with a smaller coordinate + 1, gives {want} for lists {lists}")
            lo, hi = swaps_bounds(lists, radix)
            if not (lo * mult <= got <= hi * mult):
                self.V("C19", "C19.swaps", "swaps",
                       f"numSwaps(radix={a['radix']}, latency=N, depth={depth}) = {got}, outside [{lo * mult}, {hi * mult}] "
                       f"(one comparison per merged element .. one per element and list of its group) for lists {lists}")
        self.probe("swaps_checked")
        return {"n": got}

    def _swaps_on_fresh(self, lists, depth, radix, lat, vals):
        t = Tensor(rank_ids=["M", "K"], shape=[len(lists), 8])
        for m, cs in enumerate(lists):
            for c in cs:
                r = t.getPayloadRef(m, c)
                r <<= vals + c
        return Compute.numSwaps(t, depth, radix, lat)

    def finish(self):
        # leave no collection running (the child exits anyway)
        return {"sessions": self.nsess, "kernel_executions": self.kexec}

    def state_digest(self):
        return ""

    def nontrivial(self, log):
        return self.kexec >= 2


def hash_stable(s):
    h = 0
    for ch in s:
        h = (h * 131 + ord(ch)) % 1000003
    return h


def accessed_until(A, B, hi):
    """the elements of A and B a two-finger merge has fetched when it stops at the first match >= hi (or at the end)"""
    i = j = 0
    while i < len(A) and j < len(B):
        if A[i] == B[j]:
            if A[i] >= hi:
                return list(A[:i + 1]), list(B[:j + 1])
            i += 1
            j += 1
        elif A[i] < B[j]:
            i += 1
        else:
            j += 1
    return list(A[:i + 1]), list(B[:j + 1])


def tf_ref(A, B):
    i = j = n = 0
    while i < len(A) and j < len(B):
        n += 1
        if A[i] == B[j]:
            i += 1
            j += 1
        elif A[i] < B[j]:
            i += 1
        else:
            j += 1
    return n


def sa_ref(A, B):
    """maximal same-side runs + matches, until either list is exhausted"""
    i = j = n = 0
    cur = None
    while i < len(A) and j < len(B):
        if A[i] == B[j]:
            n += 1
            cur = None
            i += 1
            j += 1
        elif A[i] < B[j]:
            if cur != 0:
                n += 1
                cur = 0
            i += 1
        else:
            if cur != 1:
                n += 1
                cur = 1
            j += 1
    return n


def swaps_ref(lists, radix, latency):
    """merge rounds of the given radix, finite latency L: every group costs L per list and L per element"""
    cur = [sorted(l) for l in lists]
    total = 0
    while len(cur) > 1:
        r = int(min(radix, len(cur)))
        nxt = []
        for i in range(0, len(cur), r):
            grp = cur[i:i + r]
            merged = sorted(c for l in grp for c in l)
            total += latency * (len(grp) + len(merged))
            nxt.append(merged)
        cur = nxt
    return total


def swaps_distinct_ref(lists, radix):
    """unbounded latency, all coordinates distinct: a merger of r lists keeps one head per non-exhausted list;
    placing a coordinate among the heads costs (heads with a smaller coordinate) + 1; the smallest head leaves"""
    cur = [sorted(l) for l in lists]
    total = 0
    while len(cur) > 1:
        r = int(min(radix, len(cur)))
        nxt = []
        for i in range(0, len(cur), r):
            grp = [list(l) for l in cur[i:i + r]]
            heads = []          # (coordinate, list index)
            for k, l in enumerate(grp):
                x = l.pop(0)
                total += sum(1 for h, _ in heads if h < x) + 1
                heads.append((x, k))
            merged = []
            while heads:
                heads.sort()
                x, k = heads.pop(0)
                merged.append(x)
                if grp[k]:
                    y = grp[k].pop(0)
                    total += sum(1 for h, _ in heads if h < y) + 1
                    heads.append((y, k))
            nxt.append(merged)
        cur = nxt
    return total


def swaps_bounds(lists, radix):
    cur = [sorted(l) for l in lists]
    lo = hi = 0
    while len(cur) > 1:
        r = int(min(radix, len(cur)))
        nxt = []
        for i in range(0, len(cur), r):
            grp = cur[i:i + r]
            merged = sorted(c for l in grp for c in l)
            lo += len(merged)
            hi += len(merged) * len(grp)
            nxt.append(merged)
        cur = nxt
    return lo, hi


# ------------------------------------------------------------------------------------ complete enumeration (C15)
ENUM_CASES = [
    {"family": "matmul", "shapes": {"k": 2, "m": 2, "n": 2},
     "vals": {"A": [[[0, 0], 1], [[0, 1], 2], [[1, 1], 3]], "B": [[[0, 0], 1], [[1, 0], 2], [[1, 1], -1]]}, "route": "ref"},
    {"family": "matvec", "shapes": {"k": 3, "m": 2},
     "vals": {"A": [[[0, 0], 2], [[0, 2], 1], [[1, 1], 3], [[1, 2], -2]], "B": [[[0], 1], [[2], 2]]}, "route": "ref"},
    {"family": "rowsum", "shapes": {"k": 3, "m": 2},
     "vals": {"A": [[[0, 1], 2], [[1, 0], 1], [[1, 2], 3]]}, "route": "ref"},
]


def c15_enumeration(tier, world_cls, workers, root):
    """for fixed small kernels: EVERY body-abort step and EVERY failing file event of one earlier session
    (ended normally / abandoned), followed by the target session; returns (plans, description)"""
    from . import core as C
    cases = ENUM_CASES if tier == "thorough" else ENUM_CASES[:1]
    plans = []
    for ci, case in enumerate(cases):
        out, ops = K.case_spec(case)
        order = sorted(case["shapes"])
        flow = {"order": order, "style": "and", "tile": None}
        reg = [x + [False] for x in all_reg(order, nlabels=4)]
        target = {"role": "target", "flow": flow, "prefix": "tgt", "reg": reg, "ncu": 3, "end": "normal"}
        # measure the clean session: number of bodies and of file events
        probe_plan = {"property": "C15", "world": "KernelSim", "verif_seed": 0, "run_index": -1, "run_seed": "enum-probe",
                      "swarm": {"mode": "C15", "max_events": 10},
                      "events": [["case", case], ["session", dict(target, role="first")]]}
        res = C.replay_plan(world_cls, probe_plan, root, tag=f"enumprobe{ci}")
        sess = res["log"][1][1]
        nfile = sess["file_events"]
        nbody = sum(sess["counts"]) and None
        tensors_bodies = 0
        # count bodies with the interpreter (collection off)
        cnt = K.Counts()
        K.run_kernel(case, K.build_tensors(case), flow, cnt)
        nbody = cnt.steps
        hist = []
        for k in range(1, nbody + 1):
            hist.append({"abort_at": k, "end": "normal"})
            hist.append({"abort_at": k, "end": "abandon"})
        for n in range(1, nfile + 1):
            hist.append({"fail_at": n, "fail_kind": "enospc", "end": "normal"})
            if tier == "thorough":
                hist.append({"fail_at": n, "fail_kind": "eio", "end": "abandon"})
        for h in hist:
            hs = dict(target, role="history", ncu=2, **h)
            plans.append({"property": "C15", "world": "KernelSim", "verif_seed": 0, "run_index": -1,
                          "run_seed": f"enum-{ci}", "swarm": {"mode": "C15", "max_events": 10},
                          "events": [["case", case], ["session", dict(target, role="first")],
                                     ["session", dict(target, role="off")], ["session", hs],
                                     ["session", dict(target, role="target")]]})
    return plans
