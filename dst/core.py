"""Shared deterministic-simulation core: seeds, plans, fork-per-run runner,
event-log digests, delta-debugging shrinker, replay, evidence, known findings.

Nothing in here knows about fibertree; worlds plug in through `WorldBase`.
"""
import hashlib
import json
import os
import pickle
import random
import select
import signal
import struct
import sys
import time
import traceback
import faulthandler

VERIF = os.path.dirname(os.path.dirname(os.path.abspath(__file__)))
OUT = os.path.join(VERIF, "out")
EVIDENCE = os.path.join(VERIF, "evidence")
KNOWN_FINDINGS = os.path.join(VERIF, "known_findings.json")


# --------------------------------------------------------------------------------------
# seeds
# --------------------------------------------------------------------------------------
def run_seed(verif_seed, prop, idx):
    h = hashlib.sha256(f"{verif_seed}:{prop}:{idx}".encode()).hexdigest()
    return h[:16]


class Streams:
    """Independent PRNG streams derived from one run seed by label."""

    def __init__(self, seed_hex):
        self.seed_hex = seed_hex
        self._s = {}

    def __getitem__(self, label):
        r = self._s.get(label)
        if r is None:
            h = hashlib.sha256(f"{self.seed_hex}/{label}".encode()).digest()
            r = self._s[label] = random.Random(int.from_bytes(h[:8], "big"))
        return r


# --------------------------------------------------------------------------------------
# violations
# --------------------------------------------------------------------------------------
class Violation(BaseException):
    """an oracle failed. Deliberately not an Exception: no `except Exception` in a world (written to
    classify what the *library* raises) can swallow it"""

    def __init__(self, prop, oracle, culprit, detail):
        super().__init__(f"{prop} {oracle} {culprit}: {detail}")
        self.prop = prop
        self.oracle = oracle
        self.culprit = culprit
        self.detail = detail

    def as_dict(self):
        return {"property": self.prop, "oracle": self.oracle, "culprit": self.culprit,
                "detail": str(self.detail)[:1500]}


class HarnessError(Exception):
    pass


def vclass(v):
    """violation class used by the shrinker: oracle id + culprit kind"""
    return (v["property"], v["oracle"], v["culprit"])


# --------------------------------------------------------------------------------------
# world interface
# --------------------------------------------------------------------------------------
class WorldBase:
    """A world executes concrete events; generation looks at the world."""
    name = "world"

    def __init__(self, prop, cfg, scratch):
        self.prop = prop
        self.cfg = cfg
        self.scratch = scratch
        self.probes = {}
        self.faults = {}
        self.sched = []          # schedule signature items
        self.steps = 0           # logical clock

    def probe(self, name, n=1):
        self.probes[name] = self.probes.get(name, 0) + n

    def fault(self, name, n=1):
        self.faults[name] = self.faults.get(name, 0) + n

    @classmethod
    def gen_config(cls, prop, rng, tier):
        raise NotImplementedError

    def generate(self, streams):
        """return the next event (list) or None when the run is over"""
        raise NotImplementedError

    def execute(self, ev):
        """execute one concrete event; returns a JSON-able outcome; may raise Violation"""
        raise NotImplementedError

    def finish(self):
        """end of plan: cancel live tasks, final invariants; returns outcome"""
        return None

    def state_digest(self):
        return ""

    def nontrivial(self, log):
        return len(log) >= 5


def _canon(o):
    return json.dumps(o, sort_keys=True, default=repr, separators=(",", ":"))


def digest_of(o):
    return hashlib.sha256(_canon(o).encode()).hexdigest()


def execute_plan(world_cls, plan, scratch, explore=False, max_events=None):
    """Run one plan in the *current* process (callers fork first).

    explore=True: events are generated on the fly from the PRNG streams and appended
    to plan["events"]; explore=False: plan["events"] is executed verbatim, no PRNG.
    Returns a result dict.
    """
    prop = plan["property"]
    w = world_cls(prop, plan["swarm"], scratch)
    log = []
    events = plan["events"] if not explore else []
    streams = Streams(plan["run_seed"]) if explore else None
    violation = None
    state_digests = set()
    i = 0
    try:
        while True:
            if explore:
                if max_events is not None and i >= max_events:
                    break
                ev = w.generate(streams)
                if ev is None:
                    break
                events.append(ev)
            else:
                if i >= len(events):
                    break
                ev = events[i]
            w.cur_index = i
            out = w.execute(ev)
            log.append([ev, out])
            sd = w.state_digest()
            if sd:
                state_digests.add(sd)
            i += 1
        out = w.finish()
        log.append([["finish"], out])
    except Violation as v:
        violation = v.as_dict()
        violation["after_event"] = i
        log.append([events[i] if i < len(events) else ["finish"], {"violation": violation}])
    res = {
        "property": prop,
        "run_seed": plan["run_seed"],
        "digest": digest_of([plan["run_seed"], plan["swarm"], log]),
        "n_events": len(events),
        "executed": i,
        "kinds": _count(ev[0] if ev[0] != "op" else "op:" + str(ev[1]) for ev in events[:i + 1]),
        "faults": dict(w.faults),
        "probes": dict(w.probes),
        "sched_sig": digest_of(w.sched)[:16],
        "states": sorted(state_digests),
        "steps": w.steps,
        "violation": violation,
        "nontrivial": bool(w.nontrivial(log)),
    }
    if explore:
        plan = dict(plan)
        plan["events"] = events
    res["plan"] = plan
    res["log"] = log
    return res


def _count(it):
    d = {}
    for k in it:
        d[k] = d.get(k, 0) + 1
    return d


# --------------------------------------------------------------------------------------
# process seam: fork a child per run from a pristine parent
# --------------------------------------------------------------------------------------
class ChildFailure(Exception):
    pass


def run_in_child(fn, timeout=60.0):
    """fork; run fn() in the child; return its (picklable) result.

    The child never returns to the caller's stack: it exits with os._exit.
    A python exception in the child is shipped back and re-raised as ChildFailure.
    A hang is killed after `timeout` seconds and reported as ChildFailure('timeout').
    """
    r, wfd = os.pipe()
    pid = os.fork()
    if pid == 0:
        code = 0
        try:
            os.close(r)
            try:
                faulthandler.dump_traceback_later(max(1.0, timeout - 1.0), exit=False)
            except Exception:
                pass
            try:
                res = ("ok", fn())
            except BaseException as e:  # noqa
                res = ("exc", "".join(traceback.format_exception(type(e), e, e.__traceback__))[-4000:])
            data = pickle.dumps(res, protocol=pickle.HIGHEST_PROTOCOL)
            with os.fdopen(wfd, "wb") as f:
                f.write(struct.pack("<Q", len(data)))
                f.write(data)
        except BaseException:
            code = 3
        finally:
            os._exit(code)
    os.close(wfd)
    buf = bytearray()
    deadline = time.monotonic() + timeout
    timed_out = False
    try:
        while True:
            left = deadline - time.monotonic()
            if left <= 0:
                timed_out = True
                break
            rl, _, _ = select.select([r], [], [], left)
            if not rl:
                timed_out = True
                break
            chunk = os.read(r, 1 << 16)
            if not chunk:
                break
            buf += chunk
    finally:
        os.close(r)
        if timed_out:
            try:
                os.kill(pid, signal.SIGKILL)
            except OSError:
                pass
        try:
            os.waitpid(pid, 0)
        except OSError:
            pass
    if timed_out:
        raise ChildFailure("timeout")
    if len(buf) < 8:
        raise ChildFailure("child died without a result")
    (n,) = struct.unpack("<Q", bytes(buf[:8]))
    if len(buf) - 8 != n:
        raise ChildFailure("truncated result")
    kind, val = pickle.loads(bytes(buf[8:]))
    if kind == "exc":
        raise ChildFailure(val)
    return val


class Batch:
    """Fan run indices out over worker processes; each run in its own forked child."""

    def __init__(self, world_cls, prop, verif_seed, tier, workers, scratch_root, run_timeout=60.0):
        self.world_cls = world_cls
        self.prop = prop
        self.verif_seed = verif_seed
        self.tier = tier
        self.workers = workers
        self.scratch_root = scratch_root
        self.run_timeout = run_timeout

    def make_plan(self, idx):
        seed_hex = run_seed(self.verif_seed, self.prop, idx)
        st = Streams(seed_hex)
        cfg = self.world_cls.gen_config(self.prop, st["cfg"], self.tier)
        return {"property": self.prop, "world": self.world_cls.name, "verif_seed": self.verif_seed,
                "run_index": idx, "run_seed": seed_hex, "swarm": cfg, "events": []}

    def one_run(self, idx, keep_log=False):
        plan = self.make_plan(idx)
        scratch = os.path.join(self.scratch_root, f"r{idx}")

        def fn():
            os.makedirs(scratch, exist_ok=True)
            try:
                res = execute_plan(self.world_cls, plan, scratch, explore=True,
                                   max_events=plan["swarm"].get("max_events", 60))
            finally:
                _rmtree(scratch)
            res["run_index"] = idx
            if not keep_log and res["violation"] is None:
                res.pop("log", None)
                if idx % 997 != 0 and idx >= 3:
                    res.pop("plan", None)
            return res

        return run_in_child(fn, timeout=self.run_timeout)

    def _worker(self, w, start, stride, max_runs, deadline, wfd, dup_every):
        # runs in a forked worker; streams pickled results to the parent
        out = os.fdopen(wfd, "wb")

        def send(obj):
            data = pickle.dumps(obj, protocol=pickle.HIGHEST_PROTOCOL)
            out.write(struct.pack("<Q", len(data)))
            out.write(data)
            out.flush()

        idx = start
        while idx < max_runs and time.monotonic() < deadline:
            try:
                res = self.one_run(idx)
                if dup_every and idx % dup_every == 0:
                    res2 = self.one_run(idx)
                    res["dup_digest"] = res2["digest"]
                send(("res", res))
                if res["violation"] is not None:
                    pass
            except ChildFailure as e:
                send(("fail", idx, str(e)))
            idx += stride
        send(("done", w))
        out.close()

    def run(self, max_runs, budget_s, dup_every=0, on_result=None, stop_on=None):
        """returns (results_summary list, failures list). on_result(res) is called per run."""
        deadline = time.monotonic() + budget_s
        procs = []
        for w in range(self.workers):
            r, wfd = os.pipe()
            pid = os.fork()
            if pid == 0:
                code = 0
                try:
                    os.close(r)
                    for (_, r2) in procs:
                        try:
                            os.close(r2)
                        except OSError:
                            pass
                    self._worker(w, w, self.workers, max_runs, deadline, wfd, dup_every)
                except BaseException:
                    traceback.print_exc()
                    code = 4
                finally:
                    os._exit(code)
            os.close(wfd)
            procs.append((pid, r))
        bufs = {r: bytearray() for _, r in procs}
        live = {r for _, r in procs}
        failures = []
        done_workers = 0
        stopped = False
        hard_deadline = deadline + self.run_timeout + 30
        while live:
            if time.monotonic() > hard_deadline:
                failures.append((-1, "batch hard deadline exceeded"))
                break
            rl, _, _ = select.select(list(live), [], [], 1.0)
            for r in rl:
                chunk = os.read(r, 1 << 20)
                if not chunk:
                    live.discard(r)
                    continue
                b = bufs[r]
                b += chunk
                while len(b) >= 8:
                    (n,) = struct.unpack("<Q", bytes(b[:8]))
                    if len(b) < 8 + n:
                        break
                    msg = pickle.loads(bytes(b[8:8 + n]))
                    del b[:8 + n]
                    if msg[0] == "res":
                        if on_result is not None:
                            on_result(msg[1])
                        if stop_on is not None and not stopped and stop_on(msg[1]):
                            stopped = True
                    elif msg[0] == "fail":
                        failures.append((msg[1], msg[2]))
                    elif msg[0] == "done":
                        done_workers += 1
            if stopped:
                break
        for pid, r in procs:
            if stopped or r in live:
                try:
                    os.kill(pid, signal.SIGKILL)
                except OSError:
                    pass
            try:
                os.close(r)
            except OSError:
                pass
            try:
                os.waitpid(pid, 0)
            except OSError:
                pass
        if not stopped and done_workers != self.workers:
            failures.append((-1, f"only {done_workers}/{self.workers} workers finished cleanly"))
        return failures


def _rmtree(path):
    import shutil
    shutil.rmtree(path, ignore_errors=True)


# --------------------------------------------------------------------------------------
# replay + shrinking
# --------------------------------------------------------------------------------------
def replay_plan(world_cls, plan, scratch_root, timeout=120.0, tag="replay"):
    scratch = os.path.join(scratch_root, tag)

    def fn():
        os.makedirs(scratch, exist_ok=True)
        try:
            res = execute_plan(world_cls, plan, scratch, explore=False)
        finally:
            _rmtree(scratch)
        return res

    return run_in_child(fn, timeout=timeout)


def shrink(world_cls, plan, violation, scratch_root, budget_s=60.0, log=None):
    """ddmin over plan['events'] keeping the same violation class. Returns (plan, violation)."""
    target = vclass(violation)
    t_end = time.monotonic() + budget_s
    tested = {}
    counter = [0]

    def fails(events):
        key = _canon(events)
        if key in tested:
            return tested[key]
        if time.monotonic() > t_end:
            return None
        p = dict(plan)
        p["events"] = events
        counter[0] += 1
        try:
            res = replay_plan(world_cls, p, scratch_root, timeout=60.0, tag=f"shrink{counter[0]}")
        except ChildFailure:
            tested[key] = None
            return None
        v = res["violation"]
        ok = v if (v is not None and vclass(v) == target) else None
        tested[key] = ok
        return ok

    events = list(plan["events"])
    # drop everything after the violating event first
    cut = violation.get("after_event")
    if cut is not None and cut + 1 < len(events):
        cand = events[:cut + 1]
        v = fails(cand)
        if v:
            events, violation = cand, v
    n = 2
    while len(events) >= 2 and time.monotonic() < t_end:
        chunk = max(1, len(events) // n)
        reduced = False
        i = 0
        while i < len(events):
            cand = events[:i] + events[i + chunk:]
            v = fails(cand) if cand else None
            if v:
                events, violation = cand, v
                n = max(n - 1, 2)
                reduced = True
            else:
                i += chunk
        if not reduced:
            if chunk == 1:
                break
            n = min(n * 2, len(events))
    # argument simplification hook
    simp = getattr(world_cls, "simplify_event", None)
    if simp is not None:
        changed = True
        while changed and time.monotonic() < t_end:
            changed = False
            for i, ev in enumerate(events):
                for cand_ev in simp(ev):
                    cand = events[:i] + [cand_ev] + events[i + 1:]
                    v = fails(cand)
                    if v:
                        events, violation = cand, v
                        changed = True
                        break
    out = dict(plan)
    out["events"] = events
    out["violation"] = violation
    out["shrink_trials"] = counter[0]
    return out, violation


def run_plans(world_cls, plans, workers, scratch_root, timeout=120.0):
    """execute explicit plans (no PRNG) in forked children, `workers` at a time; returns results in order"""
    results = [None] * len(plans)
    failures = []
    procs = []
    for w in range(workers):
        r, wfd = os.pipe()
        pid = os.fork()
        if pid == 0:
            code = 0
            try:
                os.close(r)
                out = os.fdopen(wfd, "wb")
                for i in range(w, len(plans), workers):
                    try:
                        res = replay_plan(world_cls, plans[i], scratch_root, timeout=timeout, tag=f"enum{w}_{i}")
                        msg = ("res", i, {k: res[k] for k in ("violation", "digest", "executed", "faults", "probes", "nontrivial")})
                    except ChildFailure as e:
                        msg = ("fail", i, str(e))
                    data = pickle.dumps(msg, protocol=pickle.HIGHEST_PROTOCOL)
                    out.write(struct.pack("<Q", len(data)))
                    out.write(data)
                    out.flush()
                out.close()
            except BaseException:
                code = 4
            finally:
                os._exit(code)
        os.close(wfd)
        procs.append((pid, r))
    for pid, r in procs:
        buf = bytearray()
        while True:
            chunk = os.read(r, 1 << 20)
            if not chunk:
                break
            buf += chunk
        os.close(r)
        os.waitpid(pid, 0)
        while len(buf) >= 8:
            (n,) = struct.unpack("<Q", bytes(buf[:8]))
            msg = pickle.loads(bytes(buf[8:8 + n]))
            del buf[:8 + n]
            if msg[0] == "res":
                results[msg[1]] = msg[2]
            else:
                failures.append((msg[1], msg[2]))
    return results, failures


# --------------------------------------------------------------------------------------
# known findings
# --------------------------------------------------------------------------------------
def load_known():
    if not os.path.exists(KNOWN_FINDINGS):
        return []
    with open(KNOWN_FINDINGS) as f:
        return json.load(f).get("findings", [])


def match_known(violation, known):
    for k in known:
        if k.get("status") != "known":
            continue
        if k["property"] != violation["property"]:
            continue
        if k.get("oracle") and k["oracle"] != violation["oracle"]:
            continue
        if k.get("culprit") and k["culprit"] != violation["culprit"]:
            continue
        dc = k.get("detail_contains")
        if dc and dc not in violation["detail"]:
            continue
        return k
    return None
