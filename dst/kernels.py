"""Kernel programs: a small einsum family, dataflows, a dense evaluator and an interpreter that
executes a loop nest with the library's real `&`, `<<`, `+=`, `*` while counting for itself every
multiply / add / update / loop body and recording, per loop instance, which operand elements a
two-finger (or leader-follower) co-iteration fetches (shadow merge on raw coordinate lists).
"""
import itertools

from fibertree import Fiber, Payload, Tensor

from . import observe as ob

# (output indices, [(operand, indices)])
FAM = {
    "matvec": (("m",), [("A", ("m", "k")), ("B", ("k",))]),
    "matmul": (("m", "n"), [("A", ("m", "k")), ("B", ("k", "n"))]),
    "dot": ((), [("A", ("k",)), ("B", ("k",))]),
    "elem": (("m",), [("A", ("m",)), ("B", ("m",))]),
    "outer": (("m", "n"), [("A", ("m",)), ("B", ("n",))]),
    "rowsum": (("m",), [("A", ("m", "k"))]),
    "colsum": (("k",), [("A", ("m", "k"))]),
    "chain3": (("m",), [("A", ("m", "k")), ("B", ("k", "n")), ("C", ("n",))]),
    "elem2": (("m", "n"), [("A", ("m", "n")), ("B", ("m", "n"))]),
    "triple": (("m",), [("A", ("m", "k")), ("B", ("k",)), ("C", ("k",))]),
    "contract3": (("m",), [("A", ("m", "k", "n")), ("B", ("k", "n"))]),
    "total": ((), [("A", ("m", "k"))]),
    "copy": (("m", "k"), [("A", ("m", "k"))]),
    # loop-invariant co-iteration: the same lazy A & B is walked once per m
    "dotscale": (("m",), [("A", ("k",)), ("B", ("k",)), ("C", ("m",))]),
    "outer3": (("m", "n"), [("A", ("m",)), ("B", ("n",)), ("C", ("n",))]),
}


class BodyAbort(Exception):
    """the loop body raised at a scheduler-chosen step"""


class Counts:
    def __init__(self):
        self.mul = 0
        self.upd = 0
        self.add = 0
        self.bodies = {}
        self.steps = 0

    def body(self, v):
        self.bodies[v] = self.bodies.get(v, 0) + 1


# ------------------------------------------------------------------------------------ cases
def gen_case(g, nextval=None, max_shape=4, explicit=0.0):
    name = g.choice(sorted(FAM))
    # signed, small values: partial sums cancel to exactly the default and come back
    pool = g.choice([[1, 2, 3, 4], [-2, -1, 1, 2], [-1, 1], [-3, -2, -1, 1, 2, 3, 4]])
    out, ops = FAM[name]
    idxs = sorted({i for _, idx in ops for i in idx})
    shapes = {i: g.randint(1, max_shape) for i in idxs}
    vals = {}
    for nm, idx in ops:
        dens = g.choice([0.0, 0.3, 0.6, 1.0])
        ent = []
        for pt in itertools.product(*[range(shapes[i]) for i in idx]):
            r = g.random()
            if r < dens:
                ent.append([list(pt), g.choice(pool)])
            elif r < dens + explicit * (1 - dens):
                ent.append([list(pt), 0])       # explicit default stored in the operand
        vals[nm] = ent
    return {"family": name, "shapes": shapes, "vals": vals,
            "route": g.choice(["ref", "ref", "unc", "rand", "noshape"]) if explicit == 0 else "ref"}


def case_spec(case):
    return FAM[case["family"]]


def build_tensors(case):
    out, ops = case_spec(case)
    shapes = case["shapes"]
    tensors = {}
    for nm, idx in ops:
        sh = [shapes[i] for i in idx]
        ent = case["vals"][nm]
        route = case.get("route", "ref")
        if route == "unc" and all(v != 0 for _, v in ent):
            nest = _nest(sh, {tuple(p): v for p, v in ent})
            t = Tensor.fromUncompressed(list(idx), nest, shape=sh)
        elif route == "noshape":
            # no declared shape: shapes and active ranges are estimated from the content
            t = Tensor(rank_ids=list(idx))
            for pt, v in ent:
                r = t.getPayloadRef(*pt)
                r <<= v
        else:
            t = Tensor(rank_ids=list(idx), shape=sh)
            for pt, v in ent:
                r = t.getPayloadRef(*pt)
                r <<= v
        tensors[nm] = t
    return tensors


def _nest(sh, d, pre=(), memo=None):
    """the dense nest of a tensor; equal sub-nests are one and the same list object (as in [row] * n)"""
    memo = {} if memo is None else memo
    if len(pre) == len(sh) - 1:
        n = [d.get(pre + (i,), 0) for i in range(sh[-1])]
    else:
        n = [_nest(sh, d, pre + (i,), memo) for i in range(sh[len(pre)])]
    return memo.setdefault(repr(n), n)


def dense(case):
    out, ops = case_spec(case)
    shapes = case["shapes"]
    vals = {nm: {tuple(p): v for p, v in case["vals"][nm] if v != 0} for nm, _ in ops}
    idxs = sorted(shapes)
    res = {}
    for pt in itertools.product(*[range(shapes[i]) for i in idxs]):
        env = dict(zip(idxs, pt))
        p = 1
        for nm, idx in ops:
            p *= vals[nm].get(tuple(env[i] for i in idx), 0)
            if p == 0:
                break
        if p:
            k = tuple(env[i] for i in out)
            res[k] = res.get(k, 0) + p
    return {k: v for k, v in res.items() if v != 0}


def all_flows(case, g=None, max_flows=None, tilings=True, spellings=False):
    """every loop order x {untiled, every tile size of one sampled rank} x intersection styles"""
    out, ops = case_spec(case)
    idxs = sorted(case["shapes"])
    multi = max(len([1 for _, idx in ops if i in idx]) for i in idxs) >= 2
    styles = ["and", "two-finger", "leader-follower"] if multi else ["and"]
    flows = []
    for order in itertools.permutations(idxs):
        for st in styles:
            flows.append({"order": list(order), "style": st, "tile": None})
    if tilings and g is not None:
        x = g.choice(idxs)
        for step in range(1, case["shapes"][x] + 1):
            idx2 = [j for i in idxs for j in ((x + ".1", x + ".0") if i == x else (i,))]
            for order in itertools.permutations(idx2):
                if order.index(x + ".1") > order.index(x + ".0"):
                    continue
                extra = {"by_rankid": True} if g.random() < 0.4 else {}
                if spellings and g.random() < 0.3:
                    # the same uniform tiling spelled the other ways the library offers: a number of partitions
                    # (`tensor / n`, needs declared shapes), or tile fibers with coordinates relative to their tile
                    extra = {"div": True} if g.random() < 0.5 and case.get("route") != "noshape" else {"relative": True}
                flows.append({"order": list(order), "style": "and", "tile": dict({"rank": x, "step": step}, **extra)})
        # dynamic partitioning: boundaries from a list / from another fiber's coordinates
        S = case["shapes"][x]
        for _ in range(2):
            sp = [0] + sorted(g.sample(range(1, S), g.randint(0, S - 1))) if S > 1 else [0]
            idx2 = [j for i in idxs for j in ((x + ".1", x + ".0") if i == x else (i,))]
            orders = [o for o in itertools.permutations(idx2) if o.index(x + ".1") < o.index(x + ".0")]
            flows.append({"order": list(g.choice(orders)), "style": "and",
                          "tile": {"rank": x, "splits": sp, "by": g.choice(["list", "fiber"])}})
    if max_flows is not None and g is not None and len(flows) > max_flows:
        flows = g.sample(flows, max_flows)
    return flows


def tiled(case, tensors, flow):
    """apply the flow's tiling consistently to spec and operands (real splitUniform)"""
    out, ops = case_spec(case)
    shapes = dict(case["shapes"])
    tile = flow.get("tile")
    if not tile:
        return out, list(ops), shapes, dict(tensors)
    x, step = tile["rank"], tile.get("step")
    ops2, t2 = [], {}
    for nm, idx in ops:
        if x in idx:
            if "splits" in tile:
                # partition boundaries given as a list, or as the coordinates of a (leader) fiber of rank x
                sp = list(tile["splits"])
                if tile.get("by") == "fiber":
                    sp = Fiber(sp, [1] * len(sp))
                    sp.getRankAttrs().setId(x)
                t2[nm] = tensors[nm].splitNonUniform(sp, depth=idx.index(x))
            elif tile.get("div"):
                S = shapes[x]
                n = -(-S // step)
                d = idx.index(x)
                # `t / n` partitions the top rank; the other operands get the same tile size the usual way
                t2[nm] = tensors[nm] / n if d == 0 else tensors[nm].splitUniform(-(-S // n), depth=d)
            elif tile.get("relative"):
                t2[nm] = tensors[nm].splitUniform(step, depth=idx.index(x), relativeCoords=True)
            elif tile.get("by_rankid"):
                t2[nm] = tensors[nm].splitUniform(step, rankid=x)          # the rank named, not its depth given
            else:
                t2[nm] = tensors[nm].splitUniform(step, depth=idx.index(x))
            nidx = tuple(j for i in idx for j in ((x + ".1", x + ".0") if i == x else (i,)))
        else:
            t2[nm] = tensors[nm]
            nidx = idx
        ops2.append((nm, nidx))
    out2 = tuple(j for i in out for j in ((x + ".1", x + ".0") if i == x else (i,)))
    shapes[x + ".1"] = shapes[x]
    shapes[x + ".0"] = shapes[x]
    return out2, ops2, shapes, t2


def untile_content(case, flow, zranks, content):
    out, _ = case_spec(case)
    tile = flow.get("tile")
    res = {}
    for pt, v in content.items():
        env = dict(zip(zranks, pt))
        if tile:
            x = tile["rank"]
            off = env.get(x + ".1", 0) if tile.get("relative") else 0
            k = tuple((env[x + ".0"] + off if x + ".0" in env else env.get(x)) if i == x else env[i] for i in out)
        else:
            k = tuple(env[i] for i in out)
        res[k] = res.get(k, 0) + v
    return {k: v for k, v in res.items() if v != 0}


# ------------------------------------------------------------------------------------ shadow merge
class Seq:
    """the coordinates one operand presents to a co-iteration + the rows it is expected to produce"""

    def __init__(self, coords, stored=None, lazy=None):
        self.coords = list(coords)           # presented (non-empty) coordinates, ascending
        self.stored = stored                 # raw stored coords of an eager fiber (None for lazy)
        self.lazy = lazy                     # generator factory for a nested lazy operand
        self.consumed = []                   # coordinates definitely accessed (matched or skipped)
        self.pending = []                    # fetched but not consumed (at most one)

    def it(self):
        if self.lazy is not None:
            return self.lazy()
        return iter(self.coords)


def shadow_and(x, y):
    """two-finger merge of two Seq; generator of matched coordinates; records rows on x and y"""
    def gen():
        xi, yi = x.it(), y.it()
        a = next(xi, None)
        b = next(yi, None)
        while a is not None and b is not None:
            if a == b:
                x.consumed.append(a)
                y.consumed.append(b)
                yield a
                a = next(xi, None)
                b = next(yi, None)
            elif a < b:
                x.consumed.append(a)
                a = next(xi, None)
            else:
                y.consumed.append(b)
                b = next(yi, None)
        if a is not None:
            x.pending.append(a)
        if b is not None:
            y.pending.append(b)
    return gen


def presented(f, default=0):
    return [c for c, p in zip(f.coords, f.payloads) if not _empty(p, default)]


def _empty(p, default):
    if isinstance(p, Fiber):
        return all(_empty(q, default) for q in p.payloads)
    v = p.value if isinstance(p, Payload) else p
    return v == default


# ------------------------------------------------------------------------------------ interpreter
def run_kernel(case, tensors, flow, counts=None, abort_at=None, expect=None, hook=None, break_at=None):
    """execute the loop nest; returns (z tensor, z rank ids).

    expect: optional dict filled with per-loop-instance expectations for the trace oracles:
       expect[(rank, outer_point)] = {"labels": {trace_type: Seq}, "iter": [coords of bodies], ...}
    hook(kind, info): called at loop boundaries (the consumer of consumable traces is scheduled there)
    """
    out, ops, shapes, tens = tiled(case, tensors, flow)
    order = flow["order"]
    style = flow.get("style", "and")
    cur = {}
    for nm, idx in ops:
        t = tens[nm]
        want = [i for i in order if i in idx]
        if want != list(idx) or flow.get("always_swizzle"):
            # (generated kernels ask for the concordant order unconditionally, also when it is the order the
            #  tensor already has)
            t = t.swizzleRanks(want)
        cur[nm] = (t.getRoot(), want)
    zr = [i for i in order if i in out]
    tile = flow.get("tile")
    zflat = bool(flow.get("z_untiled")) and bool(tile) and "splits" not in tile and (tile["rank"] + ".0") in out
    if zflat:
        # the output keeps its un-tiled rank: it is populated once per tile (tile fibers carry absolute coordinates)
        x = tile["rank"]
        out = tuple(i for i in out if i != x + ".1")
        zr = [(x if i == x + ".0" else i) for i in order if i in out]
        shapes = dict(shapes, **{x: shapes[x + ".0"]})
    zproto = tensors.get("__Z__") if flow.get("always_swizzle") else None
    if zproto is not None and "tile" in flow and not flow.get("tile") and len(zr) >= 1:
        # the program declares its (empty) output once and takes a copy in the loop order of each execution
        z = zproto.swizzleRanks(zr)
    else:
        z = Tensor(rank_ids=zr, shape=[shapes[i] for i in zr])
    zroot = z.getRoot()
    cnt = counts if counts is not None else Counts()
    lazies = {}     # a co-iteration of the same fibers is built once and re-iterated (loop-invariant hoisting)

    def level(i, cur, zc, point):
        if i == len(order):
            body = flow.get("body") or {}
            mstyle = body.get("mul", "pp")
            prod = None
            for nm, _ in ops:
                v = cur[nm][0]
                if prod is None:
                    prod = v
                else:
                    # the same product written three ways: box * box, scalar * box, box * scalar
                    if mstyle == "sp":
                        prod = Payload.get(prod) * v
                    elif mstyle == "ps":
                        prod = prod * Payload.get(v)
                    else:
                        prod = prod * v
                    cnt.mul += 1
            old = zc.value
            astyle = body.get("acc", "iadd")
            if astyle == "add_assign":
                zc <<= zc + prod                   # box + box, then an assignment
                cnt.add += 1
                cnt.upd += 1
            elif astyle == "radd":
                zc <<= old + prod                  # scalar + box (the scalar is often 0), then an assignment
                cnt.add += 1
                cnt.upd += 1
            else:
                zc += prod
                cnt.upd += 1
                if old != 0:
                    cnt.add += 1
            return
        v = order[i]
        parts = [n for n, _ in ops if cur[n][1] and cur[n][1][0] == v]
        fibers = [cur[n][0] for n in parts]
        is_out = v in out
        key = (style, tuple(id(f) for f in fibers))
        if len(fibers) == 1:
            src = fibers[0]
        elif key in lazies:
            src = lazies[key][0]
        elif style == "and":
            src = fibers[0]
            for f in fibers[1:]:
                src = src & f
            lazies[key] = (src, fibers)
        else:
            src = Fiber.intersection(*fibers, style=style)
            lazies[key] = (src, fibers)
        exp = None
        if expect is not None:
            exp = _expect_loop(expect, v, point, fibers, parts, is_out, style, zc)
        it = (zc << src) if is_out else src
        if hook is not None:
            hook("loop-begin", {"rank": v, "point": point, "nfibers": len(fibers)})
        prev_c = None
        for c, p in it:
            if exp is not None and is_out:
                if prev_c is not None:
                    exp["kept"].append(prev_c in zc.coords)
                prev_c = c
            cnt.steps += 1
            if break_at is not None and cnt.steps in break_at:
                # the body leaves this loop early (`break`): the loop's generator is abandoned mid-way
                break
            if abort_at is not None and cnt.steps == abort_at:
                raise BodyAbort(f"body raised at step {cnt.steps}")
            cnt.body(v)
            if hook is not None:
                hook("body", {"rank": v, "point": point, "coord": c})
            if exp is not None:
                exp["iter"].append(c)
            if is_out:
                zn, sp = p
            else:
                zn, sp = zc, p
            if len(fibers) == 1:
                pl = [sp]
            elif style == "and":
                pl = []
                x = sp
                for _ in range(len(fibers) - 1):
                    x, y = x
                    pl.append(y)
                pl.append(x)
                pl.reverse()
            else:
                pl = list(sp)
            if style == "leader-follower" and len(fibers) > 1 and any(Payload.isEmpty(q) for q in pl):
                continue
            nc = dict(cur)
            for n, q in zip(parts, pl):
                nc[n] = (q, cur[n][1][1:])
            level(i + 1, nc, zn, point + (c,))
        if exp is not None:
            if is_out and prev_c is not None:
                exp["kept"].append(prev_c in zc.coords)
            exp["done"] = True
        if hook is not None:
            hook("loop-end", {"rank": v, "point": point, "nfibers": len(fibers)})

    level(0, cur, zroot, ())
    return z, zr


def _expect_loop(expect, v, point, fibers, parts, is_out, style, zc):
    """what the traces of this loop instance must contain (computed from raw coordinate lists)"""
    labels = {}
    base = 0
    e = {"iter": [], "labels": labels, "done": False, "is_out": is_out, "nf": len(fibers), "style": style,
         "kept": []}
    seqs = [Seq(presented(f), stored=list(f.coords)) for f in fibers]
    if is_out:
        e["z_before"] = list(zc.coords)
        e["z_fiber"] = zc
        base = 2
    if len(fibers) == 1:
        top = seqs[0]
        if is_out:
            labels["populate_1"] = top
            top.consumed = list(top.coords)       # a populate offers every presented element
    elif style in ("and", "two-finger"):
        # left-nested chain ((f0 & f1) & f2) ...; labels are handed out outermost first
        n = len(fibers)
        lab = base
        # build nested shadow, innermost first
        inner = None
        nodes = []   # (xSeq, ySeq) from innermost to outermost
        x = seqs[0]
        for k in range(1, n):
            y = seqs[k]
            gen = shadow_and(x, y)
            nodes.append((x, y))
            lazy = Seq([], lazy=gen)
            x = lazy
        top = x
        # label assignment: outermost pair first
        for (xs, ys) in reversed(nodes):
            labels[f"intersect_{lab}"] = xs
            labels[f"intersect_{lab + 1}"] = ys
            lab += 2
        if is_out:
            labels["populate_1"] = top
        # the consumer pulls the chain to exhaustion
        got = list(top.it())
        top.coords = got
        top.consumed = list(got)
        # fill in presented coords of intermediate lazies
        for (xs, ys) in nodes:
            if xs.lazy is not None and not xs.coords:
                xs.coords = list(xs.consumed) + list(xs.pending)
    else:
        # leader-follower: leader presented in full, each follower looked up once per leader element
        lab = base
        lead = seqs[0]
        lead.consumed = list(lead.coords)
        labels[f"intersect_{lab}"] = lead
        for k, s in enumerate(seqs[1:]):
            s.consumed = list(lead.coords)
            s.lookup = True
            labels[f"intersect_{lab + 1 + k}"] = s
        top = lead
        if is_out:
            # the populate's source is the lazy leader-follower result: positions index that sequence
            lz = Seq(lead.coords)
            lz.consumed = list(lead.coords)
            labels["populate_1"] = lz
    e["top"] = top
    expect.setdefault((v, point), []).append(e)
    return e


def z_content(z):
    root = ob.root_of(z)
    return ob.content(root, 0)
