"""Texts for MANIFEST.json (kept next to the code they describe)."""

TECH = "deterministic simulation with fault injection (seeded schedule/fault search, reference-model oracles, ddmin replay)"

CHECKS = {
 "C01": {"level": "exploration", "design_ref": "DESIGN.md §6 C01", "technique": TECH,
         "text": "Seeded search over histories of public mutators interleaved with live populate / dense-reference traversals that are stepped and cancelled at scheduler-chosen yields, plus deliberately rejected operations; the well-formedness invariant is checked on every tensor after every event and rejected-for-order operations are checked to be atomic. Evidence, not proof.",
         "note": "Trusts the raw reads of Fiber.coords/payloads; histories <= 60 events, depth <= 3 (deeper only via transform results), shape <= 6; type-incorrect arguments never generated."},
 "C02": {"level": "exploration", "design_ref": "DESIGN.md §6 C02", "technique": TECH,
         "text": "Same simulated world as C01 with every constructor, deepcopy, setRoot adoption, YAML reload, transform results and the read-only family; after every event the rank lists are compared with a raw walk of the tree (multiset identity, owners, chaining, single root) and the derived per-rank footprint / clearStats consequences are recomputed from the raw walk.",
         "note": "Halo splits are not used as state sources (they share sub-fibers inside one result). Seeded search; bounds as C01."},
 "C03": {"level": "exploration", "design_ref": "DESIGN.md §6 C03", "technique": TECH,
         "text": "Simulated clients interleave getPayload / getPayloadRef / getPosition / getPositionRef and late writes through long-lived handles (every legal start_pos, partial points, allocate on/off, caller defaults, non-zero leaf defaults) against a map model with unique written values; reads must leave tree and rank lists untouched.",
         "note": "Handles whose element was legitimately removed or re-boxed by another mutator are retired, never written through."},
 "C05": {"level": "exploration", "design_ref": "DESIGN.md §6 C05", "technique": TECH,
         "text": "Populate loops run as live generator tasks whose body is the scheduler (assign / accumulate / leave / write default / descend / cancel at any yield, nested level by level) while other events read the destination and mutate unrelated tensors; yielded sequence, offered references, source immutability, throughout-well-formedness and final content are checked against the model.",
         "note": "What happens to a pre-existing explicit default the body leaves alone is not prescribed; after a cancellation the just-created element may remain."},
 "C10": {"level": "exploration", "design_ref": "DESIGN.md §6 C10", "technique": TECH,
         "text": "Every value-returning operation is applied to tensors in reached states, its result joins the world, and both sides keep being mutated: operand snapshots before/after, pairwise-disjoint identity sets (fibers, boxes, ranks, attributes, lists) and snapshot comparison of every non-targeted tensor after every event expose disturbance and aliasing; read-only operations and double rendering are checked for purity.",
         "note": "Saved-position statistics and cached active ranges are not part of the tree; operations that raise are counted, not judged."},
 "C06": {"level": "exploration", "design_ref": "DESIGN.md §6 C06", "technique": TECH,
         "text": "Per sampled (einsum, operand values) every dataflow is executed with the real swizzleRanks / splitUniform / & / << / +=: all loop orders, every tile size of one sampled rank with adjacent or separated tile loops, and the three intersection styles; each execution is compared with a dense evaluation and the output checked for well-formedness and rank consistency. The dataflow is the schedule of a commutative reduction onto a shared, lazily created output tree; no fault applies (weakest fit of the technique, stated in DESIGN.md).",
         "note": "13-member einsum family, shapes <= 5, operands may store explicit defaults; seeded over (einsum, operands), enumerated over dataflows."},
 "C15": {"level": "exploration", "design_ref": "DESIGN.md §6 C15", "technique": TECH,
         "text": "In one pristine forked child the target session runs first (reference), then with collection off, then after a seeded history of sessions that end normally, by a body exception, abandoned without endCollect, rejected by an undrained consumable trace, or by an injected OSError at a scheduler-chosen file event; outputs on/off are compared, multiply/add/update and per-rank iteration counts with the interpreter's own, dump() and trace files byte-for-byte with the first-session run.",
         "note": "Nothing is required of the faulted sessions themselves. An extra part enumerates completely every body-abort step and failing file event of one earlier session for fixed small kernels. Metrics.open and Compute.open are the simulator's file seam (worst-case buffering)."},
 "C16": {"level": "exploration", "design_ref": "DESIGN.md §6 C16", "technique": TECH,
         "text": "Each sampled session is executed under every flush threshold in {2,3,5,7,64,1000} and with consumable traces drained by a consumer task at scheduler-chosen loop boundaries; every trace is parsed and judged against a shadow merge of the raw coordinate lists (header, one row per access, stamp order, addressing, position), files must be byte-identical across thresholds and equal to the concatenated in-memory batches.",
         "note": "Every element a co-iteration fetched, including the look-ahead element read when the other side ran out, must have a row; destination-side traces of an inserting populate are only checked for stamp order and completeness; projection (project_i) traces are not generated; a flattened-rank kernel (tuple coordinates, associateShape) is."},
 "C19": {"level": "exploration", "design_ref": "DESIGN.md §6 C19", "technique": TECH,
         "text": "A consumer task drains the consumable intersect traces of a kernel into a fresh intersector at every subset of the first four fiber boundaries (complete), at all boundaries, only at the end, and at random subsets; the totals of the two-finger, skip-ahead and leader-follower models must equal merge counters computed on the raw coordinate lists for every schedule.",
         "note": "Batch boundaries fall on fiber boundaries only (as the property states). The swap-count model (numSwaps) is a pure function and is not simulated."},
 "C13": {"level": "exploration", "design_ref": "DESIGN.md §6 C13", "technique": TECH,
         "text": "PARTIAL claim: only the seeded-random clause (the process-global PRNG is an environment the simulator owns and perturbs between constructions) and the YAML-through-files clause (dump onto fresh / older / torn files left by a dump aborted at every file event, read back under worst-case buffering) are decided. The nest->tensor->uncompress and dictionary clauses are pure functions: they are executed on sampled nests as a piggy-back (reported as such), not decided by this technique.",
         "note": "Tuple-coordinate tensors are not dumped in exploration; their YAML form is recorded as known finding F13 and replayed on every run."},
 "C17": {"level": "fault_enumeration", "design_ref": "DESIGN.md §6 C17", "technique": TECH + "; abort/failure injected at every file event of each sampled pipeline",
         "text": "Each sampled pipeline (buffet / cache / filterTrace / _combineTraces over synthetic well-formed traces) runs once undisturbed through the file seam and is judged against reference policy models (window rule; Belady-MIN with bypass, itself cross-checked by exhaustive search on tiny instances; stable merge; point filter), then once per file event n with the call aborted (torn write) or failed (ENOSPC) at n and restarted: the restart must give the undisturbed result, leave inputs untouched, close its handles and remove every temporary, also in the presence of stale temporaries.",
         "note": "Exact optimality only for single-binding read-only cache configurations; with writes or several bindings the metamorphic bounds (distinct lines <= fills <= accesses, monotone in capacity) are demanded. Nothing is required of the aborted call itself."},
}

NOT_APPLICABLE = [
 {"property_id": "C04", "reason": "the yielded sequence of a co-iteration is a pure function of its two operand fibers: no schedule, environment or interruption; its 'operands unmodified' clause is decided under C10/C02"},
 {"property_id": "C07", "reason": "each traversal's yield sequence is a pure function of (fiber, range/step/start_pos/format) of one call"},
 {"property_id": "C08", "reason": "a split is a pure function of (fiber, parameters); nothing to schedule, interrupt or fault"},
 {"property_id": "C09", "reason": "rank transforms are pure functions of (tensor, parameters); their results are only required to be rank-consistent and unaliased under C02/C10"},
 {"property_id": "C11", "reason": "arithmetic on boxes and fibers is a pure function of its operands"},
 {"property_id": "C12", "reason": "equality / emptiness / counting are pure functions of the tree (side effects of == are decided under C02/C10)"},
 {"property_id": "C14", "reason": "each clause relates attributes of a result to attributes of the operand of one call"},
 {"property_id": "C18", "reason": "a footprint is a sum over the tree and specification of one call; its only history dependence (rank lists) is decided under C02"},
 {"property_id": "C20", "reason": "Codec.encode is a pure function of (tensor, descriptor); no I/O, no state, the cache object only feeds statistics"},
]

NOTES = ("All checks: /venv/bin/python /verif/dst/check.py <id> --tier quick|thorough [--replay file]; exit 0 held / 1 VIOLATION / 2 harness fault. "
         "VERIF_SEED selects the batch, VERIF_BUDGET_S overrides the wall budget. Known findings and fixed defects: /verif/known_findings.json.")
