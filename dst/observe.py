"""Observation of fibertrees by raw reads of the documented public attributes
(Fiber.coords / Fiber.payloads / Rank.fibers via getFibers / Tensor.ranks).

Nothing here calls a library routine that could itself be the thing under test,
except trivial getters (getRoot, getFibers, getOwner, getNextRank, getId).
"""
from fibertree import Fiber, Payload, Tensor
from fibertree.core.rank import Rank
from fibertree.core.rank_attrs import RankAttrs


def enc_value(v):
    """JSON-able, hash-seed independent encoding of an unboxed leaf value"""
    if isinstance(v, Payload):
        return ["BOX", enc_value(v.value)]
    if isinstance(v, Fiber):
        return ["FIBER", enc_fiber(v)]
    if isinstance(v, tuple):
        return ["T"] + [enc_value(x) for x in v]
    if isinstance(v, (int, float, str, bool)) or v is None:
        return v
    return ["R", repr(v)]


def enc_coord(c):
    if isinstance(c, tuple):
        return ["T"] + [enc_coord(x) for x in c]
    return c


def enc_fiber(f):
    """[[coord, payload-enc], ...]; a leaf payload is ["v", value], a fiber ["f", enc]"""
    out = []
    for c, p in zip(f.coords, f.payloads):
        if isinstance(p, Fiber):
            out.append([enc_coord(c), ["f", enc_fiber(p)]])
        elif isinstance(p, Payload):
            out.append([enc_coord(c), ["v", enc_value(p.value)]])
        else:
            out.append([enc_coord(c), ["raw", enc_value(p)]])
    if len(f.coords) != len(f.payloads):
        out.append(["LEN", len(f.coords), len(f.payloads)])
    return out


def root_of(t):
    """the root of a tensor, read without Tensor.getRoot()'s own consistency assertion (a broken tensor must be
    observable); falls back on the getter if the attribute is not there"""
    if not isinstance(t, Tensor):
        return t
    if hasattr(t, "_root"):
        return t._root
    return t.getRoot()


def snapshot(t, with_ranks=True):
    """Deep structural snapshot of a tensor (or free fiber): tree + rank lists + attributes."""
    if isinstance(t, Fiber):
        return {"tree": enc_fiber(t)}
    root = root_of(t)
    snap = {}
    if isinstance(root, Fiber):
        snap["tree"] = enc_fiber(root)
    else:
        snap["tree"] = ["rank0", enc_value(root)]
    if with_ranks:
        snap["ids"] = [enc_value(_jsonable(r.getId())) for r in t.ranks]
        snap["ranklists"] = [[id(f) for f in r.getFibers()] for r in t.ranks]
        # ... and whether each listed fiber names that rank as its owner (an operation that detaches the owners of its
        # operand for a while must put them back, also when it is rejected)
        snap["owned"] = [[f.getOwner() is r for f in r.getFibers()] for r in t.ranks]
        snap["fmt"] = [r.getFormat() for r in t.ranks]
        snap["name"] = t.getName()
        snap["mutable"] = bool(t.isMutable())
        snap["default"] = [enc_default(r) for r in t.ranks]
    return snap


def _jsonable(x):
    """a private deep copy (rank ids of flattened ranks are mutable lists)"""
    if isinstance(x, (list, tuple)):
        return tuple(_jsonable(y) for y in x)
    return x


def enc_default(rank):
    d = rank.getAttrs()._default if hasattr(rank.getAttrs(), "_default") else None
    try:
        d = rank.getDefault()
    except Exception:
        return "?"
    d = Payload.get(d)
    if isinstance(d, type):
        return "Fiber"
    return enc_value(d)


def levels(root):
    """fibers met at each depth by a raw walk"""
    lv = []

    def rec(f, d):
        while len(lv) <= d:
            lv.append([])
        lv[d].append(f)
        for p in f.payloads:
            if isinstance(p, Fiber):
                rec(p, d + 1)
    if isinstance(root, Fiber):
        rec(root, 0)
    return lv


def wellformed(root, depth, where="t"):
    """C01 invariant. returns a list of error strings (empty = well-formed)"""
    errs = []

    def rec(f, d, path):
        if len(f.coords) != len(f.payloads):
            errs.append(f"{where}{path}: {len(f.coords)} coords vs {len(f.payloads)} payloads")
        cs = f.coords
        for x, y in zip(cs, cs[1:]):
            try:
                bad = not (x < y)
            except TypeError:
                bad = True
            if bad:
                errs.append(f"{where}{path}: coords not strictly increasing {cs!r}")
                break
        for c, p in zip(f.coords, f.payloads):
            if d < depth - 1:
                if not isinstance(p, Fiber):
                    errs.append(f"{where}{path + (c,)}: interior payload is {type(p).__name__}, not Fiber")
                else:
                    rec(p, d + 1, path + (c,))
            else:
                if isinstance(p, Fiber):
                    errs.append(f"{where}{path + (c,)}: leaf level holds a Fiber (leaves at unequal depth)")
                elif not isinstance(p, Payload):
                    errs.append(f"{where}{path + (c,)}: leaf payload unboxed {type(p).__name__}")
                elif isinstance(p.value, (Payload, Fiber)):
                    errs.append(f"{where}{path + (c,)}: leaf payload doubly boxed / boxes a fiber")
    if isinstance(root, Fiber):
        rec(root, 0, ())
    return errs


def mirror(t, where="t"):
    """C02 invariant for a Tensor. returns list of error strings"""
    errs = []
    root = root_of(t)
    if not isinstance(root, Fiber):
        return errs
    lv = levels(root)
    ranks = t.ranks
    if len(lv) > len(ranks):
        errs.append(f"{where}: tree has {len(lv)} levels, tensor has {len(ranks)} ranks")
    for i, r in enumerate(ranks):
        want = lv[i] if i < len(lv) else []
        have = r.getFibers()
        a = sorted(id(f) for f in have)
        b = sorted(id(f) for f in want)
        if a != b:
            sa, sb = set(a), set(b)
            stale = len([x for x in a if x not in sb])
            missing = len([x for x in b if x not in sa])
            dup = len(a) - len(sa)
            errs.append(f"{where}: ranks[{i}] ({r.getId()}) lists {len(a)} fibers, raw walk finds {len(b)} "
                        f"(stale={stale} missing={missing} dup={dup})")
        for f in want:
            if f.getOwner() is not r:
                errs.append(f"{where}: a fiber at depth {i} reports owner "
                            f"{'None' if f.getOwner() is None else 'another rank'}")
                break
        nxt = ranks[i + 1] if i + 1 < len(ranks) else None
        if r.getNextRank() is not nxt:
            errs.append(f"{where}: ranks[{i}].getNextRank() is not ranks[{i + 1}]")
    if ranks:
        f0 = ranks[0].getFibers()
        if len(f0) != 1 or f0[0] is not root:
            errs.append(f"{where}: root is not the single fiber of the first rank (len={len(f0)})")
    return errs


def content(root, default=0):
    """point -> value for every stored leaf whose value differs from the default"""
    out = {}

    def rec(f, pt):
        for c, p in zip(f.coords, f.payloads):
            if isinstance(p, Fiber):
                rec(p, pt + (c,))
            else:
                v = p.value if isinstance(p, Payload) else p
                if v != default:
                    out[pt + (c,)] = v
    if isinstance(root, Fiber):
        rec(root, ())
    elif isinstance(root, Payload):
        if root.value != default:
            out[()] = root.value
    return out


def identity_set(t):
    """ids of every mutable object reachable from a tensor / fiber, by kind"""
    ids = {}

    def add(kind, o):
        ids[id(o)] = kind

    def rec(f):
        add("fiber", f)
        add("coords", f.coords)
        add("payloads", f.payloads)
        ra = f._rank_attrs if hasattr(f, "_rank_attrs") else None
        if ra is not None:
            add("rankattrs", ra)
        ow = f.getOwner()
        if ow is not None:
            add("rank", ow)
            add("rankattrs", ow.getAttrs())
            add("ranklist", ow.getFibers())
        for p in f.payloads:
            if isinstance(p, Fiber):
                rec(p)
            elif isinstance(p, Payload):
                add("payload", p)
    if isinstance(t, Tensor):
        for r in t.ranks:
            add("rank", r)
            add("rankattrs", r.getAttrs())
            add("ranklist", r.getFibers())
            if isinstance(r.getId(), list):
                add("rankid-list", r.getId())
        root = root_of(t)
    else:
        root = t
    if isinstance(root, Fiber):
        rec(root)
    elif isinstance(root, Payload):
        add("payload", root)
    return ids


def find_fiber(root, prefix):
    """raw descent along existing coordinates; returns the fiber or None"""
    f = root
    for c in prefix:
        if not isinstance(f, Fiber):
            return None
        try:
            i = f.coords.index(c)
        except ValueError:
            return None
        f = f.payloads[i]
    return f if isinstance(f, Fiber) else None


def find_payload(root, point):
    f = find_fiber(root, point[:-1])
    if f is None:
        return None
    try:
        i = f.coords.index(point[-1])
    except ValueError:
        return None
    return f.payloads[i]
