"""PipelineSim — trace files to traffic numbers through the file seam (C17).

Events:
    ["trace", {...}]                 write a synthetic, well-formed trace file (read or write side)
    ["stale", {...}]                 leave temporaries of an earlier aborted call in the directory
    ["call", {...}]                  buffetTraffic / cacheTraffic / filterTrace / _combineTraces, optionally
                                     aborted at file event n (SimAbort) or failing there with OSError
"""
import copy
import os

import fibertree.model.traffic as MT
from fibertree import Tensor
from fibertree.model.format import Format
from fibertree.model.traffic import Traffic

from .core import WorldBase, Violation
from .simfs import SimFS, SimAbort

_REAL_FRB = MT.FileReadBackwards
_REAL_OS = MT.os

RANKS = ["M", "J", "K"]


class Skip(Exception):
    pass


# ------------------------------------------------------------------------------------ reference models
def combine_ref(R, W, nr):
    """stable merge by stamp, reads before writes on ties; returns [(row, is_write)]"""
    out = []
    i = j = 0
    while i < len(R) or j < len(W):
        if j < len(W) and (i >= len(R) or tuple(W[j][:nr]) < tuple(R[i][:nr])):
            out.append((W[j], True))
            j += 1
        else:
            out.append((R[i], False))
            i += 1
    return out


def buffet_ref(comb, nr, mask, epl, wlen, line, shape_pin):
    first, haswrite = {}, {}
    for r, isw in comb:
        pos = r[2 * nr]
        pt = [c for c, m in zip(r[nr:2 * nr], mask) if m]
        pt[-1] = pos // epl
        key = (tuple(pt), tuple(r[:wlen]))
        if key not in first:
            first[key] = isw
        if isw and (shape_pin is None or pos < shape_pin):
            haswrite[key] = True
    return (sum(1 for v in first.values() if not v) * line, sum(1 for k in first if haswrite.get(k)) * line)


def tiny_cache_ref(acc, shape, has_writes):
    """a cache that cannot hold one whole line holds nothing but lines of the insertion staging area (positions
    at or beyond the rank's shape, write-traced bindings only), from the access that creates them to their last
    access: every read of another line is a fill, every in-shape write to another line goes straight to memory,
    a staging line is written back once, when it leaves, if it received an in-shape write.
    acc: [(line, pos, is_write)]; returns (fills, write-backs)"""
    last = {}
    for i, (ln, _, _) in enumerate(acc):
        last[ln] = i
    resident = {}
    fills = wbs = 0
    for i, (ln, pos, isw) in enumerate(acc):
        inw = isw and pos < shape
        is_last = last[ln] == i
        if ln in resident:
            resident[ln] = resident[ln] or inw
            if is_last:
                if resident[ln]:
                    wbs += 1
                del resident[ln]
            continue
        if not isw:
            fills += 1
        if has_writes and pos >= shape and not is_last:
            resident[ln] = False
        elif inw:
            wbs += 1
    return fills, wbs


def belady_fills(seq, cap):
    """optimal (furthest next use, bypass allowed) replacement: number of fills"""
    n = len(seq)
    nxt = [None] * n
    last = {}
    INF = float("inf")
    for i in range(n - 1, -1, -1):
        nxt[i] = last.get(seq[i], INF)
        last[seq[i]] = i
    cache = {}
    fills = 0
    for i, x in enumerate(seq):
        if x in cache:
            cache[x] = nxt[i]
            if nxt[i] == INF:
                del cache[x]
            continue
        fills += 1
        if nxt[i] == INF:
            continue
        if len(cache) < cap:
            cache[x] = nxt[i]
        elif cap > 0:
            far = max(cache, key=lambda k: cache[k])
            if cache[far] > nxt[i]:
                del cache[far]
                cache[x] = nxt[i]
    return fills


def brute_min_fills(seq, cap):
    """exhaustive search over replacement decisions (tiny instances only)"""
    from functools import lru_cache
    seq = tuple(seq)

    @lru_cache(maxsize=None)
    def go(i, cache):
        if i == len(seq):
            return 0
        x = seq[i]
        if x in cache:
            return go(i + 1, cache)
        best = 1 + go(i + 1, cache)                   # bypass
        if cap > 0:
            if len(cache) < cap:
                best = min(best, 1 + go(i + 1, tuple(sorted(cache + (x,)))))
            else:
                for v in cache:
                    c2 = tuple(sorted(tuple(y for y in cache if y != v) + (x,)))
                    best = min(best, 1 + go(i + 1, c2))
        return best
    return go(0, ())


# ------------------------------------------------------------------------------------ the world
class PipelineSim(WorldBase):
    name = "PipelineSim"

    @classmethod
    def gen_config(cls, prop, rng, tier):
        return {"mode": prop, "max_events": 600,
                "aborts": rng.choice(["all", "all", "sample"]),
                "max_abort_points": 60 if tier == "quick" else 400,
                "kind": rng.choice(["buffet", "buffet", "cache", "cache", "filter", "combine", "kernel", "kernel"])}

    def __init__(self, prop, cfg, scratch):
        super().__init__(prop, cfg, scratch)
        self.fs = SimFS()
        MT.open = self.fs.open
        MT.os = self.fs.os_shim()
        MT.FileReadBackwards = self.fs.frb(_REAL_FRB)
        self.dir = os.path.join(scratch, "tr")
        os.makedirs(self.dir, exist_ok=True)
        self.traces = {}          # name -> spec
        self.q = None
        self.clean = {}           # call id -> clean result
        self.cur_index = 0
        self.calls = 0

    def V(self, prop, oracle, culprit, detail):
        if prop == self.prop:
            raise Violation(prop, oracle, culprit, detail)
        self.probe(f"foreign:{oracle}")

    # ------------------------------------------------------------------ generation
    def generate(self, streams):
        g = streams["gen"]
        if self.q is None:
            self.q = self._plan(g)
            self.stage = 0
        if self.q:
            return self.q.pop(0)
        # after the clean call: enumerate abort points
        if self.stage == 0:
            self.stage = 1
            n = self.last_file_events
            call = self.last_call
            if n and call is not None and call["fn"] in ("buffet", "cache", "filter", "combine"):
                pts = list(range(1, n + 1))
                if self.cfg["aborts"] == "sample" or len(pts) > self.cfg["max_abort_points"]:
                    f = streams["fault"]
                    pts = sorted(f.sample(pts, min(len(pts), self.cfg["max_abort_points"] // 2)))
                else:
                    self.probe("abort_points_enumerated_completely")
                for k in pts:
                    kind = "abort" if (k % 5) else "enospc"
                    self.q.append(["call", dict(call, fault_at=k, fault_kind=kind)])
                    self.q.append(["call", dict(call)])
                if self.q:
                    return self.q.pop(0)
        if self.stage == 1 and self.cfg["kind"] == "filter" and "G" in self.traces:
            self.stage = 2
            self.q = [["call", {"fn": "filter", "input": "G", "filter": "F", "id": "f2"}],
                      ["call", {"fn": "filter", "input": "I", "filter": "F", "id": "f3"}]]
            return self.q.pop(0)
        if self.stage == 1:
            # a second use of the models in the same process: the same trace file names hold other traces now
            # (another kernel collected under the same prefix), or a format the caller kept was given another width
            self.stage = 2
            rn = [n for n in (self.last_call or {}).get("tensors", []) if n in self.traces and self.traces[n].get("tid")
                  and len(self.traces[n]["order"]) >= 2]
            if self.cfg["kind"] in ("buffet", "cache") and rn and g.random() < 0.7:
                old0 = self.traces[rn[0]]["order"][0]
                call2 = copy.deepcopy(self.last_call)
                for b in call2["bindings"]:
                    if b.get("evict-on") == old0:
                        b["evict-on"] = "Q"
                call2["id"] = "w0"
                self.q = [["rewalk", {"name": rn[0], "new": "Q"}], ["call", call2]]
                return self.q.pop(0)
            if self.cfg["kind"] in ("buffet", "cache") and self.last_call is not None and g.random() < 0.5:
                if g.random() < 0.5:
                    self.q = [ev if ev[0] != "call" else ["call", dict(ev[1], id="p2" + ev[1].get("id", "c0"))]
                              for ev in self._plan(g) if ev[0] in ("trace", "call")]
                else:
                    names = [n for n in self.last_call.get("tensors", []) if n in self.traces
                             and not self.traces[n].get("upper") and "btype" not in self.traces[n]]
                    le = self.last_call.get("line_elems", 1)
                    if names and le % 2 == 0:
                        self.q = [["respec", {"name": names[0], "pbits": 64}],
                                  ["call", dict(self.last_call, id="r0")]]
                if self.q:
                    return self.q.pop(0)
        return None

    def _plan(self, g):
        kind = self.cfg["kind"]
        evs = []
        if kind == "kernel":
            # traces of a real kernel (Z[m,n] += A[m,k] * B[k,n], Gustavson order) produced by the real Metrics
            M, K, N = g.randint(1, 3), g.randint(1, 4), g.randint(2, 5)
            ka = {"M": M, "K": K, "N": N, "seedA": g.randrange(1000), "seedB": g.randrange(1000),
                  "dA": g.choice([0.4, 0.8, 1.0]), "dB": g.choice([0.4, 0.8, 1.0])}
            evs.append(["ktrace", ka])
            which = g.choice(["Z", "Z", "B", "A", "BK"])
            fn = "buffet" if which == "Z" or g.random() < 0.5 else "cache"
            rank = {"Z": "N", "B": "N", "A": "K", "BK": "K"}[which]
            b = {"tensor": which, "rank": rank, "type": "payload"}
            outer = {"N": ["M", "K"], "K": ["M"]}[rank]
            if fn == "buffet":
                b["evict-on"] = g.choice(["root"] + outer)
            le = g.choice([1, 1, 2, 3])
            evs.append(["call", {"fn": fn, "bindings": [b], "tensors": [which], "line_elems": le,
                                 "cap_lines": g.choice([0, 1, 2, 3, 5, 10 ** 4]) if fn == "cache" else 10 ** 4, "id": "c0",
                                 "cap_frac": g.choice([0, 0, 1, 3]) if fn == "cache" else 0}])
            return evs
        if kind in ("buffet", "cache"):
            nr = g.randint(1, 3)
            order = RANKS[3 - nr:]
            ntens = 1 if g.random() < 0.7 else 2
            tens = []
            trace_fns = {}
            line_elems = g.choice([1, 1, 2, 3, 4])
            for ti in range(ntens):
                name = "BC"[ti]
                # tensor ranks: the last loop rank plus a subset of the outer ones
                tr = [r for r in order[:-1] if g.random() < (0.2 if kind == "cache" else 0.5)] + [order[-1]]
                shape = {r: g.randint(2, 6) if r == order[-1] else g.randint(1, 4 if kind == "cache" else 3)
                         for r in order}
                fmt = g.choice(["U", "C"])
                upper = None
                if kind == "buffet" and len(tr) >= 2 and g.random() < 0.5:
                    upper = tr[0]
                pb = {r: 32 for r in tr}
                if upper is not None:
                    pb[upper] = g.choice([32, 64])
                    pb[order[-1]] = g.choice([32, 32, 64])
                    if 64 in pb.values() and line_elems % 2:
                        line_elems += 1
                spec = self._gen_trace(g, name, order, tr, shape, fmt, with_write=(kind == "buffet" and g.random() < 0.5)
                                       or (kind == "cache" and g.random() < (0.5 if ntens == 2 else 0.3)),
                                       epl=line_elems if kind == "cache" else 1, upper=upper,
                                       staging=(kind == "buffet"))
                spec["pbits"] = pb
                if upper is None and g.random() < 0.4:
                    # the binding may name the coordinate, the payload or the whole element (coordinate + payload);
                    # what one such thing occupies decides how many of them share a line
                    bt = g.choice(["coord", "elem", "elem"])
                    cb = g.choice([16, 32, 32, 64] if bt == "coord" else [0, 16, 32])
                    bits = cb if bt == "coord" else cb + 32
                    if bits <= 32 * line_elems:
                        spec["btype"], spec["cbits"] = bt, cb
                if kind == "cache" and ntens == 1 and spec["wrows"] is not None and g.random() < 0.6:
                    # the tensor declares a smaller shape than the positions touched: positions at or beyond it
                    # are the insertion staging area, in the read trace and in the write trace alike
                    spec["shape"][-1] = g.randint(1, shape[order[-1]])
                    spec["shrunk"] = True
                evs.append(["trace", spec])
                tens.append(spec)
            if ntens == 1 and nr >= 2 and tens[0]["fmt"] == "U" and tens[0]["wrows"] is None and not tens[0].get("upper") \
                    and "btype" not in tens[0] and g.random() < 0.5:
                # a second operand walked by the same loop: it is bound from the SAME trace file, but it is indexed
                # by another subset of the loop ranks (A[M,K] and B[K,N] both read at rank K of one K-iter trace)
                first = tens[0]
                other = [r for r in order[:-1] if g.random() < 0.5]
                if other != [r for r in first["tranks"][:-1]]:
                    tr2 = other + [order[-1]]
                    spec2 = dict(first, tensor="C", tranks=tr2, shape=[shape[r] for r in tr2], share=first["tensor"],
                                 pbits={r: 32 for r in tr2})
                    evs.append(["trace", spec2])
                    tens.append(spec2)
            if len(tens) == 1 and not tens[0].get("upper") and g.random() < 0.3:
                tens[0]["tid"] = {r: r.lower() + "x" for r in tens[0]["tranks"]}
            bindings = []
            for spec in tens:
                b = {"tensor": spec["tensor"], "rank": (spec["tid"][order[-1]] if spec.get("tid") else order[-1]),
                     "type": spec.get("btype", "payload")}
                if kind == "buffet":
                    b["evict-on"] = g.choice(["root"] + order[:-1]) if len(order) > 1 else "root"
                    if spec.get("tid") and b["evict-on"] != "root" and g.random() < 0.5:
                        # the rank is named the way the declared tensors call it (loop_ranks says which loop rank that
                        # is) - also a loop rank that belongs to another tensor of the kernel
                        r0 = b["evict-on"]
                        if r0 not in spec["tid"]:
                            spec.setdefault("alias", {})[r0] = r0.lower() + "y"
                        b["evict-on"] = spec["tid"].get(r0) or spec["alias"][r0]
                bindings.append(b)
                if spec.get("upper"):
                    ub = {"tensor": spec["tensor"], "rank": spec["upper"]["rank"], "type": "payload", "evict-on": "root"}
                    # the caller may list bindings in any order (inner rank first, too)
                    if g.random() < 0.6:
                        bindings.insert(len(bindings) - 1, ub)
                    else:
                        bindings.append(ub)
            if len(tens) >= 2 and g.random() < 0.25:
                # the caller lists the traces of the whole kernel but binds only some of the tensors in this call
                drop = tens[-1]["tensor"]
                bindings = [b for b in bindings if b["tensor"] != drop]
            nlines = max(1, max(len({(tuple(r[len(order):2 * len(order) - 1]), r[-1] // line_elems) for r in s["rows"]})
                                    for s in tens))
            cap_lines = g.choice([0, 1, 1, 2, 2, 3, nlines // 2, nlines - 1, nlines - 1, nlines, nlines + 1, 10 ** 4]) \
                if kind == "cache" else 10 ** 4
            cap_lines = max(0, cap_lines)
            if g.random() < 0.3:
                evs.append(["stale", {"names": [s["tensor"] for s in tens], "rank": order[-1]}])
            evs.append(["call", {"fn": kind, "bindings": bindings, "tensors": [s["tensor"] for s in tens],
                                 "line_elems": line_elems, "cap_lines": cap_lines, "id": "c0",
                                 "cap_frac": g.choice([0, 0, 1, 2, 3]) if kind == "cache" else 0,
                                 "cap_inf": kind == "cache" and cap_lines == 10 ** 4 and g.random() < 0.5}])
            if kind == "cache":
                # capacity sweep for monotonicity
                for c in sorted({0, 1, 2, 3, nlines, nlines + 1}):
                    evs.append(["call", {"fn": kind, "bindings": bindings, "tensors": [s["tensor"] for s in tens],
                                         "line_elems": line_elems, "cap_lines": c, "id": f"cap{c}", "sweep": True,
                                         "cap_frac": g.choice([0, 1, 2, 3])}])
        elif kind == "filter":
            nr = g.randint(1, 3)
            order = RANKS[3 - nr:]
            shape = {r: g.choice([1, 2, 3, 4, 11, 13]) for r in order}
            a = self._gen_trace(g, "I", order, order, shape, "C", iter_like=True)
            extra = g.random() < 0.5 and nr < 3
            b = self._gen_trace(g, "F", order, order, shape, "C", iter_like=True, density=g.choice([0.3, 0.6, 1.0]))
            evs += [["trace", a], ["trace", b]]
            if g.random() < 0.5:
                # a second input trace (written before anything is filtered) is filtered into the same output later
                a2 = self._gen_trace(g, "G", order, order, shape, "C", iter_like=True)
                evs.append(["trace", a2])
                self.filter_second = True
            evs.append(["call", {"fn": "filter", "input": "I", "filter": "F", "id": "c0"}])
        else:
            nr = g.randint(1, 3)
            order = RANKS[3 - nr:]
            shape = {r: g.randint(1, 4) for r in order}
            a = self._gen_trace(g, "R", order, order, shape, "C", with_write=True)
            evs += [["trace", a], ["call", {"fn": "combine", "tensor": "R", "which": g.choice(["both", "both", "read", "write"]),
                                           "id": "c0"}]]
        return evs

    def _gen_trace(self, g, name, order, tranks, shape, fmt, with_write=False, iter_like=False, density=None, epl=12,
                   upper=None, staging=True):
        """rows of a well-formed trace of accesses to tensor `name` at the last loop rank"""
        nr = len(order)
        last = order[-1]
        S = shape[last]
        fibers = {}
        rows, wrows = [], []
        urows = []

        def fiber_coords(key):
            if key not in fibers:
                if fmt == "U":
                    fibers[key] = list(range(S))
                else:
                    fibers[key] = sorted(g.sample(range(S), g.randint(0, S)))
            return fibers[key]

        dens = density if density is not None else g.choice([0.4, 0.7, 1.0])
        # staging rows only for the buffet: the cache model pins staging lines and expects the read-back sequence
        # of a real inserting populate; synthetic staging rows make it assert on the unchanged tree
        stage_p = g.choice([0.1, 0.25, 0.5]) if staging else 0.0
        outer = order[:-1]

        def rec(d, stamp, coords):
            if d == len(outer):
                key = tuple(c for r, c in zip(outer, coords) if r in tranks)
                fc = fiber_coords(key)
                pick = [c for c in fc if g.random() < dens]
                staging = 0
                for kp, c in enumerate(pick):
                    pos = fc.index(c)
                    row = list(stamp) + [kp] + list(coords) + [c] + [pos]
                    rows.append(row)
                    if with_write and g.random() < 0.6:
                        if g.random() < stage_p:
                            # staging area: beyond the shape. For the cache model it starts on a line boundary
                            # (that model keeps pinned staging lines and ordinary lines in different structures
                            # and asserts when one line is both); the buffet takes it right at the shape, so a
                            # line can hold a real and a staging position, as real traces do
                            wpos = ((S + epl - 1) // epl) * epl + staging
                            staging += 1
                        else:
                            wpos = pos
                        wrows.append(list(stamp) + [kp + (1 if g.random() < 0.5 else 0)] + list(coords) + [c] + [wpos])
                return
            r = outer[d]
            n = shape[r]
            cs = sorted(g.sample(range(n), g.randint(0, n))) if not iter_like else \
                [c for c in range(n) if g.random() < 0.8]
            for p, c in enumerate(cs):
                if upper is not None and r == upper:
                    # the access to the tensor's upper rank made by this loop (position == coordinate)
                    urows.append(list(stamp) + [p] + list(coords) + [c] + [c])
                rec(d + 1, stamp + [p], coords + [c])

        rec(0, [], [])
        wrows.sort(key=lambda r: tuple(r[:nr]))
        spec = {"tensor": name, "order": order, "tranks": tranks, "shape": [shape[r] for r in tranks],
                "fmt": fmt, "rows": rows, "wrows": wrows if with_write else None}
        if upper is not None:
            spec["upper"] = {"rank": upper, "nr": order.index(upper) + 1, "rows": urows}
        return spec

    # ------------------------------------------------------------------ execution
    def execute(self, ev):
        self.steps += 1
        kind = ev[0]
        self.sched.append([kind, ev[1].get("fn") if kind == "call" else None, ev[1].get("fault_at")])
        try:
            if kind == "trace":
                return self.ev_trace(ev[1])
            if kind == "ktrace":
                return self.ev_ktrace(ev[1])
            if kind == "stale":
                return self.ev_stale(ev[1])
            if kind == "call":
                return self.ev_call(ev[1])
            if kind == "respec":
                return self.ev_respec(ev[1])
            if kind == "rewalk":
                return self.ev_rewalk(ev[1])
            raise Skip("unknown")
        except Skip as e:
            return {"status": "skipped", "why": str(e)}

    def path(self, name, side):
        return os.path.join(self.dir, f"{name}-{side}.csv")

    def ev_trace(self, spec):
        spec = copy.deepcopy(spec)         # event arguments are never modified (ev_respec changes the world's copy)
        order = spec["order"]
        # (traces replaced under the same names: comparisons across capacities start afresh)
        self.clean.pop(("sweepcap", spec["tensor"]), None)
        self.__dict__.setdefault("loop_keep", {}).pop(spec["tensor"], None)
        head = ",".join([r + "_pos" for r in order] + list(order) + ["fiber_pos"]) + "\n"
        for side, rows in (("read", spec["rows"]), ("write", spec.get("wrows"))):
            if rows is None:
                continue
            if spec.get("share"):
                continue          # this tensor is bound from another tensor's trace file (one loop, two operands)
            with open(self.path(spec["tensor"], side), "w") as f:
                f.write(head)
                for r in rows:
                    f.write(",".join(str(x) for x in r) + "\n")
        if spec.get("upper"):
            u = spec["upper"]
            uo = order[:u["nr"]]
            with open(self.path(spec["tensor"] + "." + u["rank"], "read"), "w") as f:
                f.write(",".join([r + "_pos" for r in uo] + list(uo) + ["fiber_pos"]) + "\n")
                for r in u["rows"]:
                    f.write(",".join(str(x) for x in r) + "\n")
        self.traces[spec["tensor"]] = spec
        return {"rows": len(spec["rows"]), "wrows": len(spec["wrows"] or [])}

    def ev_ktrace(self, a):
        """run the real kernel under the real Metrics and adopt its trace files as inputs"""
        from fibertree.core.metrics import Metrics
        M, K, N = a["M"], a["K"], a["N"]
        A = Tensor.fromRandom(["M", "K"], [M, K], [1.0, a["dA"]], seed=a["seedA"])
        B = Tensor.fromRandom(["K", "N"], [K, N], [1.0, a["dB"]], seed=a["seedB"])
        Z = Tensor(rank_ids=["M", "N"], shape=[M, N])
        pre = os.path.join(self.scratch, "k")
        Metrics.beginCollect(pre)
        try:
            for r, t in (("N", "populate_read_0"), ("N", "populate_write_0"), ("N", "populate_1"),
                         ("K", "intersect_0"), ("K", "intersect_1")):
                Metrics.trace(r, t)
            for m, (z_n, a_k) in Z.getRoot() << A.getRoot():
                for k, (a_val, b_n) in a_k & B.getRoot():
                    for n, (z_ref, b_val) in z_n << b_n:
                        z_ref += a_val * b_val
        finally:
            Metrics.endCollect()
        srcs = {"Z": ("N", "populate_read_0", "populate_write_0", Z, ["M", "K", "N"]),
                "B": ("N", "populate_1", None, B, ["M", "K", "N"]),
                "A": ("K", "intersect_0", None, A, ["M", "K"]),
                "BK": ("K", "intersect_1", None, B, ["M", "K"])}
        n = 0
        for name, (rank, rt, wt, t, order) in srcs.items():
            rp = f"{pre}-{rank}-{rt}.csv"
            if not os.path.exists(rp) or os.path.getsize(rp) == 0:
                continue
            rows = self._parse(rp)
            wrows = None
            if wt is not None:
                wp = f"{pre}-{rank}-{wt}.csv"
                if os.path.exists(wp) and os.path.getsize(wp) > 0:
                    wrows = self._parse(wp)
            ids = t.getRankIds()
            tr = ids[:ids.index(rank) + 1]
            spec = {"tensor": name, "order": order, "tranks": [r for r in tr], "shape": [t.getShape()[ids.index(r)] for r in tr],
                    "fmt": "C", "rows": rows, "wrows": wrows, "real": True}
            self.ev_trace(spec)
            n += 1
        self.probe("real_kernel_traces", n)
        return {"traces": n}

    @staticmethod
    def _parse(path):
        with open(path) as f:
            lines = f.read().splitlines()
        return [[int(x) for x in ln.split(",")] for ln in lines[1:]]

    def ev_stale(self, a):
        n = 0
        for name in a["names"]:
            if name not in self.traces:
                continue
            sp0 = self.traces[name]
            key = "-".join([name, (sp0["tid"][a["rank"]] if sp0.get("tid") else a["rank"]), sp0.get("btype", "payload")])
            base = os.path.join(self.dir, f"{self.traces[name].get('share') or name}-read")
            for fn in (f"{base}-comb-{key}.csv", f"{base}-comb-{key}-next-{key}.csv"):
                with open(fn, "w") as f:
                    f.write("garbage left by an aborted call\n1,2,3\n")
                n += 1
        self.probe("stale_temporaries_present", n)
        return {"stale": n}

    def listing(self):
        out = {}
        for fn in sorted(os.listdir(self.dir)):
            with open(os.path.join(self.dir, fn)) as f:
                out[fn] = f.read()
        return out

    def _formats(self, tensors, line_elems):
        fmts = {}
        keep = self.__dict__.setdefault("fmt_keep", {})
        for name in tensors:
            spec = self.traces.get(name)
            if spec is None:
                raise Skip("no such trace")
            if name in keep and keep[name][0] is spec:
                # the caller keeps its Format objects between calls
                fmts[name] = keep[name][1]
                self.probe("format_object_kept_between_calls")
                continue
            tid = (lambda r: spec["tid"][r]) if spec.get("tid") else (lambda r: r)
            t = Tensor(rank_ids=[tid(r) for r in spec["tranks"]], shape=list(spec["shape"]))
            fs = {}
            for r in spec["tranks"]:
                fs[tid(r)] = {"format": spec["fmt"], "pbits": spec.get("pbits", {}).get(r, 32), "cbits": spec.get("cbits", 32)}
                if spec.get("btype") == "elem" and r == spec["order"][-1]:
                    fs[tid(r)]["layout"] = "interleaved"       # an "elem" binding needs an array-of-structs rank
            fmts[name] = Format(t, fs)
            keep[name] = (spec, fmts[name])
        return fmts

    def ev_rewalk(self, a):
        """the same tensor is walked by another kernel whose outer loop rank has another name: same rows, new header,
        and the caller updates its loop_ranks dictionary in place"""
        spec = self.traces.get(a["name"])
        if spec is None or not spec.get("tid") or len(spec["order"]) < 2:
            raise Skip("needs a renamed tensor under at least two loop ranks")
        old, new = spec["order"][0], a["new"]
        if new in spec["order"]:
            raise Skip("name in use")
        ren = lambda r: new if r == old else r
        spec["order"] = [ren(r) for r in spec["order"]]
        spec["tranks"] = [ren(r) for r in spec["tranks"]]
        spec["tid"] = {ren(k): v for k, v in spec["tid"].items()}
        if "alias" in spec:
            spec["alias"] = {ren(k): v for k, v in spec["alias"].items()}
        if "pbits" in spec:
            spec["pbits"] = {ren(k): v for k, v in spec["pbits"].items()}
        head = ",".join([r + "_pos" for r in spec["order"]] + list(spec["order"]) + ["fiber_pos"]) + "\n"
        for side, rows in (("read", spec["rows"]), ("write", spec.get("wrows"))):
            if rows is None:
                continue
            with open(self.path(spec["tensor"], side), "w") as f:
                f.write(head)
                for r in rows:
                    f.write(",".join(str(x) for x in r) + "\n")
        lk = self.__dict__.setdefault("loop_keep", {}).get(a["name"])
        if lk is not None:
            for k in list(lk):
                if lk[k] == old:
                    lk[k] = new
            lk.pop(old, None)           # (the library had filled in the loop order's own names)
        self.probe("tensor_rewalked_under_other_loop_names")
        return {"old": old, "new": new}

    def ev_respec(self, a):
        """the caller changes a width in the format specification it holds (fmt.spec[rank][...]) between two calls"""
        spec = self.traces.get(a["name"])
        keep = self.__dict__.setdefault("fmt_keep", {})
        if spec is None or a["name"] not in keep or keep[a["name"]][0] is not spec:
            raise Skip("no kept format")
        rank = spec["order"][-1]
        fmt = keep[a["name"]][1]
        fmt.spec[spec["tid"][rank] if spec.get("tid") else rank]["pbits"] = a["pbits"]
        spec.setdefault("pbits", {})[rank] = a["pbits"]
        self.probe("format_width_changed_between_calls")
        return {"rank": rank}

    def ev_call(self, a):
        fn = a["fn"]
        fs = self.fs
        before = self.listing()
        fs.reset_counters()
        fs.disarm()
        if a.get("fault_at"):
            fs.arm(a["fault_at"], a.get("fault_kind", "abort"))
        self.calls += 1
        res = None
        err = None
        try:
            if fn in ("buffet", "cache"):
                fmts = self._formats(a["tensors"], a["line_elems"])
                line = 32 * a["line_elems"]
                trace_fns = {}
                loop_ranks = None
                for name in a["tensors"]:
                    spec = self.traces[name]
                    rank = spec["order"][-1]
                    if spec.get("tid"):
                        # the tensor calls its ranks by other names than the loops: the caller says which is which
                        rank = spec["tid"][rank]
                        lk = self.__dict__.setdefault("loop_keep", {})
                        if name not in lk:
                            lk[name] = {v: k for k, v in spec["tid"].items()}
                            lk[name].update({v: k for k, v in spec.get("alias", {}).items()})
                        loop_ranks = lk[name]            # one dictionary object, kept (and edited) by the caller
                        self.probe("call_with_loop_ranks")
                    bt = spec.get("btype", "payload")
                    trace_fns[(name, rank, bt, "read")] = self.path(spec.get("share") or name, "read")
                    if spec.get("wrows") is not None:
                        trace_fns[(name, rank, bt, "write")] = self.path(name, "write")
                    if spec.get("upper") and any(b["rank"] == spec["upper"]["rank"] for b in a["bindings"]):
                        ur = spec["upper"]["rank"]
                        trace_fns[(name, ur, "payload", "read")] = self.path(name + "." + ur, "read")
                # the caller builds its bindings once and passes the same list to every call (capacity sweeps, restarts)
                bkeep = self.__dict__.setdefault("bind_keep", {})
                bkey = repr(a["bindings"])
                if bkey not in bkeep:
                    bkeep[bkey] = [dict(b) for b in a["bindings"]]
                bindings = bkeep[bkey]
                if {k[0] for k in trace_fns} - {b["tensor"] for b in bindings}:
                    self.probe("trace_listed_without_a_binding")
                kw = {"loop_ranks": loop_ranks} if loop_ranks is not None else {}
                if fn == "buffet":
                    res = Traffic.buffetTraffic(bindings, fmts, trace_fns, 10 ** 9, line, **kw)
                else:
                    # a capacity need not be a whole number of lines: the part of a line does not hold one
                    cap = a["cap_lines"] * line + (a.get("cap_frac", 0) * line) // 4
                    if a.get("cap_inf"):
                        cap = float("inf")        # "unbounded", spelled the other way
                    res = Traffic.cacheTraffic(bindings, fmts, trace_fns, cap, line, **kw)
            elif fn == "filter":
                if a["input"] not in self.traces or a["filter"] not in self.traces:
                    raise Skip("traces")
                Traffic.filterTrace(self.path(a["input"], "read"), self.path(a["filter"], "read"),
                                    os.path.join(self.dir, "filtered.csv"))
                res = "done"
            elif fn == "combine":
                if a["tensor"] not in self.traces:
                    raise Skip("traces")
                kw = {"comb_fn": os.path.join(self.dir, "combined.csv")}
                if a["which"] in ("both", "read"):
                    kw["read_fn"] = self.path(a["tensor"], "read")
                if a["which"] in ("both", "write"):
                    kw["write_fn"] = self.path(a["tensor"], "write")
                Traffic._combineTraces(**kw)
                res = "done"
            else:
                raise Skip("fn")
        except Skip:
            raise
        except SimAbort:
            err = "SimAbort"
        except OSError as e:
            err = "OSError"
        except Exception as e:
            err = f"{type(e).__name__}: {str(e)[:100]}"
        fired = list(fs.fired)
        fs.fired = []
        fs.disarm()
        nev = fs.n
        if fn in ("buffet", "cache") and not fired and err is None:
            kept = self.__dict__.get("bind_keep", {}).get(repr(a["bindings"]))
            if kept is not None and kept != a["bindings"]:
                self.V("C17", "C17.inputs-untouched", fn,
                       f"the call changed the bindings list it was given: {a['bindings']} became {kept}")
        out = {"fn": fn, "err": err, "file_events": nev, "fault_fired": bool(fired)}
        if fired:
            self.fault("fs:" + fired[0][1] + ":" + fired[0][2])
            # the aborted / failed call may leave temporaries; nothing is required of it.
            # an abandoned process would not keep handles open either:
            fs.open_handles.clear()
            # output files of an interrupted filter/combine are not inputs of anything later
            if err is None and fn in ("buffet", "cache") and fired[0][1] != "abort":
                # the write failed with an OSError and the call nevertheless returned numbers: a failed call may
                # fail, it may not hand out wrong data as if nothing had happened
                key = (a.get("id", "c0"), repr(sorted(a.get("bindings", []), key=repr)), a.get("cap_lines"),
                       a.get("cap_frac"), a.get("line_elems"))
                self.probe("call_returned_normally_despite_io_error")
                if key in self.clean and self.clean[key] != res:
                    self.V("C17", "C17.wrong-result-after-io-error", fn,
                           f"file event {fired[0][0] if fired[0] else '?'} failed with an OSError ({fired[0]}), the call returned "
                           f"{res} as if it had succeeded; the undisturbed call returns {self.clean[key]}")
            return out
        if a.get("fault_at"):
            self.probe("fault_armed_beyond_last_event")
        after = self.listing()
        self._judge(a, res, err, before, after, nev)
        if a.get("id") == "c0" and not a.get("fault_at") and self.clean.get("c0") is None:
            self.last_file_events = nev
            self.last_call = {k: v for k, v in a.items()}
        out["res"] = repr(res)[:200]
        return out

    last_file_events = 0
    last_call = None

    # ------------------------------------------------------------------ oracles
    def _judge(self, a, res, err, before, after, nev):
        fn = a["fn"]
        cid = a.get("id", "c0")
        if err is not None:
            self.V("C17", "C17.no-exception", fn, f"undisturbed call raised {err}")
            return
        # inputs untouched, temporaries removed (stale ones of an aborted predecessor share their names)
        outputs = {"filter": {"filtered.csv"}, "combine": {"combined.csv"}}.get(fn, set())
        b = {k: v for k, v in before.items() if k not in outputs}
        af = {k: v for k, v in after.items() if k not in outputs}
        stale_names = {k for k in before if "-comb-" in k or "-next-" in k}
        if fn in ("buffet", "cache"):
            left = sorted(k for k in af if ("-comb-" in k or "-next-" in k))
            if left:
                self.V("C17", "C17.temporaries-removed", fn, f"temporary files left behind: {left}")
            for k, v in b.items():
                if k in stale_names:
                    continue
                if af.get(k) != v:
                    self.V("C17", "C17.inputs-untouched", fn, f"input file {k} changed or disappeared")
            extra = sorted(set(af) - set(b))
            if extra:
                self.V("C17", "C17.temporaries-removed", fn, f"new files after the call: {extra}")
        else:
            for k, v in b.items():
                if af.get(k) != v:
                    self.V("C17", "C17.inputs-untouched", fn, f"input file {k} changed or disappeared")
        if self.fs.open_handles:
            self.V("C17", "C17.handles-closed", fn, f"{len(self.fs.open_handles)} file handles still open after the call")
        # same answer as the undisturbed first call (restart after an aborted call)
        key = (cid, repr(sorted(a.get("bindings", []), key=repr)), a.get("cap_lines"), a.get("cap_frac"), a.get("line_elems"))
        if fn in ("buffet", "cache"):
            if key in self.clean:
                if self.clean[key] != res:
                    self.V("C17", "C17.restart-same-result", fn,
                           f"call after an aborted predecessor returned {res}, the undisturbed call returned {self.clean[key]}")
                else:
                    self.probe("restart_matches_clean")
            else:
                self.clean[key] = res
            self._judge_policy(a, res)
        elif fn == "filter":
            self._judge_filter(a, after.get("filtered.csv"))
        elif fn == "combine":
            self._judge_combine(a, after.get("combined.csv"))

    def _rows(self, name, side):
        spec = self.traces[name]
        return spec["rows"] if side == "read" else (spec.get("wrows") or [])

    def _judge_policy(self, a, res):
        fn = a["fn"]
        traffic, overflows = res
        line = 32 * a["line_elems"]
        want_tot = {}
        detail = {}
        for b in a["bindings"]:
            name = b["tensor"]
            spec = self.traces[name]
            order = spec["order"]
            brank = b["rank"]
            if spec.get("tid"):
                brank = {v: k for k, v in spec["tid"].items()}.get(brank, brank)
            pb = spec.get("pbits", {}).get(brank, 32)
            cb = spec.get("cbits", 32)
            # what the binding names: a coordinate, a payload, or an element (both) - whatever the rank's format
            pb = {"payload": pb, "coord": cb, "elem": cb + pb}[b.get("type", "payload")]
            epl = line // pb
            if b.get("type", "payload") != "payload":
                self.probe("binding_type_" + b["type"])
            up = spec.get("upper")
            if up and brank == up["rank"]:
                nr = up["nr"]
                R, W = up["rows"], None
                shape_last = None
                self.probe("binding_on_upper_rank")
            else:
                nr = len(order)
                R, W = spec["rows"], spec.get("wrows")
                shape_last = spec["shape"][-1]
            mask = [r in spec["tranks"] for r in order[:nr]]
            comb = combine_ref(R, W or [], nr)
            lines = {(tuple(c for c, m in zip(r[nr:2 * nr - 1], mask[:-1]) if m), r[2 * nr] // epl) for r, _ in comb}
            nacc = len(comb)
            if fn == "buffet":
                ev = b.get("evict-on", "root")
                if spec.get("tid") and ev not in order:
                    ev = {v: k for k, v in list(spec["tid"].items()) + list(spec.get("alias", {}).items())}.get(ev, ev)
                    self.probe("evict_on_spelled_with_the_tensor_side_rank_name")
                wlen = 0 if ev == "root" else order.index(ev) + 1
                pin = shape_last if (W is not None and ev != b["rank"]) else None
                wr, ww = buffet_ref(comb, nr, mask, epl, wlen, line, pin)
                t = want_tot.setdefault(name, [0, 0])
                t[0] += wr
                t[1] += ww
                detail.setdefault(name, []).append(f"{b['rank']}: evict-on {ev}, {epl} elems/line, {len(R)} reads, {len(W or [])} writes")
                if W is not None and any(r[2 * nr] >= shape_last for r in W):
                    self.probe("staging_write_rows_seen")
                if wlen:
                    self.probe("buffet_evict_on_outer_rank")
                continue
            got_r = traffic.get(name, {}).get("read", 0)
            seq = [(tuple(c for c, m in zip(r[nr:2 * nr - 1], mask[:-1]) if m), r[2 * nr] // epl) for r, _ in comb]
            if W is None and len(a["bindings"]) == 1:
                want = belady_fills(seq, a["cap_lines"]) * line
                if got_r != want:
                    self.V("C17", "C17.cache-optimal", fn,
                           f"tensor {name} capacity {a['cap_lines']} lines (+{a.get('cap_frac', 0)}/4 line) of {epl} elems: "
                           f"charged {got_r} bits, optimal replacement with bypass incurs {want} "
                           f"({len(seq)} accesses, {len(lines)} lines)")
                if a["cap_lines"] and want < nacc * line and want > len(lines) * line:
                    self.probe("cache_evictions_needed")
                if a.get("cap_frac"):
                    self.probe("cache_fractional_capacity")
            if W is not None and len(a["bindings"]) == 1 and a["cap_lines"] == 0 and shape_last is not None:
                acc = [(ln, r[2 * nr], isw) for ln, (r, isw) in zip(seq, comb)]
                fl, wb = tiny_cache_ref(acc, shape_last, True)
                got_w0 = traffic.get(name, {}).get("write", 0)
                if (got_r, got_w0) != (fl * line, wb * line):
                    self.V("C17", "C17.cache-below-one-line", fn,
                           f"tensor {name}, capacity {a.get('cap_frac', 0)}/4 of a line, shape {shape_last}: charged read/write "
                           f"{(got_r, got_w0)}; a buffer that holds no whole line (staging lines apart) costs "
                           f"{(fl * line, wb * line)}")
                self.probe("cache_below_one_line_with_writes")
                if any(p >= shape_last for _, p, _ in acc):
                    self.probe("cache_below_one_line_with_staging")
            # bounds that hold in every configuration
            if W is not None:
                got_w = traffic.get(name, {}).get("write", 0)
                real = [(tuple(c for c, m in zip(r[nr:2 * nr - 1], mask[:-1]) if m), r[2 * nr] // epl)
                        for r in W if r[2 * nr] < shape_last]
                lo, hi = len(set(real)) * line, len(real) * line
                if not (lo <= got_w <= hi):
                    self.V("C17", "C17.cache-write-bounds", fn,
                           f"tensor {name}: {got_w} bits written back; every line that received a real write is written "
                           f"back at least once and at most once per write: [{lo}, {hi}]")
                self.probe("cache_with_writes")
            else:
                if traffic.get(name, {}).get("write", 0):
                    self.V("C17", "C17.cache-write-bounds", fn, f"tensor {name} has no write trace but is charged write-backs")
            if W is None:
                if not (len(lines) * line <= got_r <= nacc * line) and nacc:
                    self.V("C17", "C17.cache-bounds", fn,
                           f"tensor {name}: {got_r} bits for {len(lines)} distinct lines and {nacc} accesses")
                if a.get("sweep"):
                    cap = a["cap_lines"] * 4 + a.get("cap_frac", 0)
                    prev = self.clean.get(("sweepcap", name))
                    if prev is not None and prev[0] < cap and got_r > prev[1]:
                        self.V("C17", "C17.cache-monotone", fn,
                               f"tensor {name}: traffic rose from {prev[1]} to {got_r} when capacity grew from "
                               f"{prev[0] / 4} to {cap / 4} lines")
                    self.clean[("sweepcap", name)] = (cap, got_r)
        for name, (wr, ww) in want_tot.items():
            got_r = traffic.get(name, {}).get("read", 0)
            got_w = traffic.get(name, {}).get("write", 0)
            if (got_r, got_w) != (wr, ww):
                self.V("C17", "C17.buffet-policy", fn,
                       f"tensor {name}: charged read/write {(got_r, got_w)}, the window rule gives {(wr, ww)} "
                       f"(bindings as listed by the caller: {detail[name]})")

    def _judge_filter(self, a, text):
        if text is None:
            self.V("C17", "C17.filter", "filter", "no output file")
            return
        I = self.traces[a["input"]]
        F = self.traces[a["filter"]]
        nr = len(I["order"])
        pts = {tuple(r[nr:2 * nr]) for r in F["rows"]}
        want = [r for r in I["rows"] if tuple(r[nr:2 * nr]) in pts]
        head = ",".join([r + "_pos" for r in I["order"]] + list(I["order"]) + ["fiber_pos"])
        lines = text.splitlines()
        got = [[int(x) for x in ln.split(",")] for ln in lines[1:]]
        if not lines or lines[0] != head or got != want:
            self.V("C17", "C17.filter", "filter",
                   f"filterTrace kept {len(got)} rows, {len(want)} input rows have their point in the filter "
                   f"(input {len(I['rows'])}, filter {len(F['rows'])})")
        if want and len(want) < len(I["rows"]):
            self.probe("filter_dropped_some_rows")

    def _judge_combine(self, a, text):
        if text is None:
            self.V("C17", "C17.combine", "combine", "no output file")
            return
        spec = self.traces[a["tensor"]]
        nr = len(spec["order"])
        R = spec["rows"] if a["which"] in ("both", "read") else []
        W = (spec.get("wrows") or []) if a["which"] in ("both", "write") else []
        want = [",".join(str(x) for x in r) + "," + str(w) for r, w in combine_ref(R, W, nr)]
        lines = text.splitlines()
        if lines[1:] != want or not lines[0].endswith(",is_write"):
            self.V("C17", "C17.combine", "combine",
                   f"_combineTraces produced {len(lines) - 1} rows that are not the stable merge by stamp "
                   f"(reads first on ties) of {len(R)} reads and {len(W)} writes")
        if R and W:
            stamps_r = {tuple(r[:nr]) for r in R}
            if any(tuple(w[:nr]) in stamps_r for w in W):
                self.probe("combine_stamp_ties")

    def finish(self):
        return {"calls": self.calls}

    def nontrivial(self, log):
        return self.calls >= 2
