"""TreeSim — tensors, long-lived handles and live traversals (C01, C02, C03, C05, C10).

A run is a history of concrete events executed against the real library:

    ["op",    kind, args]            an atomic public-API operation
    ["start", tid, kind, args]       begin a live traversal (a suspended generator)
    ["step",  tid, action]           advance it once; `action` is what the loop body does
    ["cancel", tid]                  close() it at its current yield (break / body exception)

Events are self-contained (slot numbers, concrete coordinates, positions) so that a plan
stays executable after the shrinker deleted events; an event whose precondition no longer
holds is skipped and logged as such.
"""
import copy
import os

from fibertree import Fiber, Payload, Tensor, CoordPayload
from fibertree.core.fiber import CoordinateError

from .core import WorldBase, Violation, digest_of
from . import observe as ob

IDS = ["M", "K", "N", "J"]

MUTATORS = ("ref", "hw", "posref", "append", "extend", "setitem", "iol", "setdef", "fiadd", "fimul", "filshift",
            "updc", "updp", "updbelow", "clear", "setroot", "reroot")
C03_FAMILY = ("ref", "hw", "posref", "get", "getpos")


class Skip(Exception):
    """event precondition does not hold (after shrinking, or raced with a live task)"""


class Slot:
    __slots__ = ("t", "depth", "shape", "default", "model", "origin", "free")

    def __init__(self, t, shape, default, origin):
        self.t = t
        self.free = isinstance(t, Fiber)
        self.depth = len(t.ranks) if not self.free else 1     # free-standing fibers are leaf fibers here
        self.shape = shape
        self.default = default
        self.model = {}
        self.origin = origin

    @property
    def root(self):
        return ob.root_of(self.t)


# operations / constructor routes that never set an active range: there the range is (0, declared shape)
# or, without a declared shape, (0, largest coordinate + 1) at the time of the question
PLAIN_OPS = ("ref", "hw", "posref", "get", "getpos", "r0", "append", "extend", "updc", "updp", "clear", "ro")
PLAIN_ROUTES = ("empty", "noshape", "unc", "fib", "yaml")


def dec_coord(c):
    return tuple(dec_coord(x) for x in c) if isinstance(c, list) else c


def dec_point(p):
    return tuple(dec_coord(c) for c in p)


def enc_point(p):
    return [ob.enc_coord(c) if not isinstance(c, tuple) else list(c) for c in p]


class SubInt(int):
    """a value whose type merely derives from a built-in one (as numpy scalars, IntEnum members, named tuples do)"""


def subtyped(v):
    return SubInt(v) if type(v) is int else v


def build_fiber(spec, shape, level=0, default=0, wrap=None, initial=None):
    """spec: [[coord, leafvalue | subspec], ...]; initial: leaf fibers are built the other way the constructor
    offers, from coordinates and one value for all of them (the values of the spec are then not used)"""
    coords = [dec_coord(c) for c, _ in spec]
    payloads = []
    for _, p in spec:
        if isinstance(p, list):
            payloads.append(build_fiber(p, shape, level + 1, default, wrap, initial))
        else:
            payloads.append(wrap(p) if wrap else p)
    sh = shape[level] if level < len(shape) else None
    kw = {}
    if sh is not None:
        kw["shape"] = sh
    if level == len(shape) - 1:
        kw["default"] = default
        if initial is not None and coords:
            return Fiber(coords, initial=initial, **kw)
    return Fiber(coords, payloads, **kw)


class Task:
    def __init__(self, tid, kind):
        self.tid = tid
        self.kind = kind
        self.gen = None
        self.parent = None
        self.child = None
        self.slots = set()       # frozen while live
        self.zslot = None
        self.aslot = None
        self.yields = 0
        self.cur = None          # last yielded (c, payloads)
        self.info = {}
        self.done = False


class TreeSim(WorldBase):
    name = "TreeSim"

    # ------------------------------------------------------------------ config
    @classmethod
    def gen_config(cls, prop, rng, tier):
        depth = rng.choice([1, 2, 2, 3, 3])
        shape = [rng.randint(2, 6 if tier == "quick" else 8) for _ in range(depth)]
        cfg = {
            "depth": depth,
            "shape": shape,
            "slots": rng.choice([1, 2, 2, 3]) if prop in ("C01", "C02", "C03") else rng.choice([2, 2, 3]),
            "leaf_default": 0,
            "max_events": rng.choice([12, 25, 40, 60] if tier == "quick" else [25, 60, 90, 140]),
            "reject": rng.choice([0.0, 0.1, 0.3]),
            "explicit": rng.choice([0.0, 0.2, 0.5]),   # explicit defaults / empty sub-fibers in builds
            "mode": prop,
        }
        if prop == "C03" and rng.random() < 0.25:
            cfg["leaf_default"] = rng.choice([5, -1, 0.5, 2.5])
        if prop == "C05" and rng.random() < 0.2:
            cfg["leaf_default"] = rng.choice([5, -1, 2.5])
        if prop == "C10" and rng.random() < 0.25:
            cfg["leaf_default"] = rng.choice([0.5, 2.5, -1])
        if prop in ("C01", "C03") and rng.random() < 0.2:
            cfg["subtyped"] = True      # raw values handed to constructors / append / position assignment are of a derived type
        # swarm: op weights with dropout
        w = dict(BASE_WEIGHTS[prop])
        focus = FOCUS[prop]
        for k in list(w):
            if k not in focus and rng.random() < 0.3:
                w[k] = 0
            elif rng.random() < 0.3:
                w[k] = w[k] * rng.choice([0.3, 3])
        cfg["weights"] = w
        cfg["task_bias"] = rng.choice([0.3, 0.6, 0.85])
        cfg["cancel"] = rng.choice([0.0, 0.05, 0.2])
        return cfg

    # ------------------------------------------------------------------ init
    def __init__(self, prop, cfg, scratch):
        super().__init__(prop, cfg, scratch)
        self.slots = {}
        self.snaps = {}
        self.nonplain = set()        # slots whose fibers may carry an explicitly set active range
        self.tasks = {}
        self.next_tid = 1
        self.handles = []
        self.ihandles = []       # interior references (sub-fibers) a loop body kept
        self.uniq = 100          # unique written values
        self.cur_index = 0
        self.nfiles = 0
        self.multi = 0           # number of step events executed (multi-step ops)

    # ------------------------------------------------------------------ helpers
    def nextval(self):
        self.uniq += 1
        return self.uniq

    def slot(self, s):
        sl = self.slots.get(s)
        if sl is None:
            raise Skip(f"no slot {s}")
        return sl

    def frozen(self, s):
        return any((not t.done) and s in t.slots for t in self.tasks.values())

    def need_unfrozen(self, s):
        if self.frozen(s):
            raise Skip(f"slot {s} has a live traversal")

    def fiber_at(self, s, prefix):
        sl = self.slot(s)
        f = ob.find_fiber(sl.root, dec_point(prefix))
        if f is None:
            raise Skip("no fiber at prefix")
        return sl, f

    def level_shape(self, sl, level):
        if level >= len(sl.shape):
            raise Skip("no shape")
        sh = sl.shape[level]
        return sh

    def kinds_ok(self, sl, level, f, osl, olevel, of):
        """both sub-trees use the same kind of coordinate (int, or tuples of one arity) level by level"""
        def kind(c):
            # the nesting structure of a coordinate: int, (int, int), (int, (int, int)), ...
            return tuple(kind(x) for x in c) if isinstance(c, (tuple, list)) else "i"

        def walk(x, y):
            if not isinstance(x, Fiber) or not isinstance(y, Fiber):
                return isinstance(x, Fiber) == isinstance(y, Fiber)
            kx = {kind(c) for c in x.coords}
            ky = {kind(c) for c in y.coords}
            if len(kx | ky) > 1:
                return False
            xs = [p for p in x.payloads if isinstance(p, Fiber)][:3]
            ys = [p for p in y.payloads if isinstance(p, Fiber)][:3]
            return all(walk(p, q) for p in xs for q in ys)
        for dz, da in zip(range(level, sl.depth), range(olevel, osl.depth)):
            kz, ka = sl.shape[dz], osl.shape[da]
            if (kind(kz) if not isinstance(kz, int) else "i") != (kind(ka) if not isinstance(ka, int) else "i"):
                return False
        return walk(f, of)

    def resync(self, s):
        sl = self.slots[s]
        sl.model = ob.content(sl.root, sl.default)

    def take_snaps(self):
        return {s: ob.snapshot(sl.t) for s, sl in self.slots.items()}

    def V(self, prop, oracle, culprit, detail):
        """raise only for the property this check decides; other oracles are counted"""
        if prop == self.prop:
            raise Violation(prop, oracle, culprit, detail)
        self.probe(f"foreign:{oracle}")

    # ------------------------------------------------------------------ execution
    def execute(self, ev):
        self.steps += 1
        kind = ev[0]
        before = self.snaps
        targets = set()
        status = "ok"
        culprit = ev[1] if kind == "op" else (ev[2] if kind == "start" else kind)
        if kind == "op" and ev[1] in ("vr", "ro"):
            culprit = f"{ev[1]}_{ev[2].get('kind')}"
        if kind == "start" and ev[2] == "rotrav":
            culprit = "t_rotrav"
        out = {}
        try:
            if kind == "op":
                fn = getattr(self, "op_" + ev[1])
                res = fn(ev[2], targets)
            elif kind == "start":
                res = self.ev_start(ev[1], ev[2], ev[3], targets)
            elif kind == "step":
                t = self.tasks.get(ev[1])
                culprit = ("t_rotrav" if t.kind == "rotrav" else t.kind) if t else "step"
                res = self.ev_step(ev[1], ev[2], targets)
            elif kind == "cancel":
                t = self.tasks.get(ev[1])
                culprit = ("t_rotrav" if t.kind == "rotrav" else t.kind) if t else "cancel"
                res = self.ev_cancel(ev[1], targets)
            else:
                raise Skip("unknown event")
            if isinstance(res, dict):
                out.update(res)
                status = res.get("status", "ok")
            if not (kind == "op" and (ev[1] in PLAIN_OPS or ev[1] == "new")):
                self.nonplain |= targets      # active ranges may now have been set explicitly
        except Skip as e:
            out = {"status": "skipped", "why": str(e)}
            self.sched.append(["skip"])
            self.probe(f"skip:{culprit}")
            return out
        out["status"] = status
        if status != "ok":
            self.probe(f"status:{culprit}:{status}")
        self.sched.append([kind, culprit])
        self.after_event(kind, culprit, status, targets, before, out)
        return out

    def after_event(self, kind, culprit, status, targets, before, out):
        after = self.take_snaps()
        self.snaps = after
        # --- things that must not have changed
        for s, snap in after.items():
            if s in targets or s not in before:
                continue
            if snap != before[s]:
                what = "tree" if snap["tree"] != before[s]["tree"] else \
                    ("rank lists" if snap.get("ranklists") != before[s].get("ranklists") else "attributes")
                detail = f"slot {s} {what} changed by {culprit} which does not target it"
                if culprit in ("get", "getpos"):
                    self.V("C03", "C03.read-pure", culprit, detail)
                    self.V("C10", "C10.readonly-pure", culprit, detail)
                    self.V("C02", "C02.rank-mirror", culprit, detail + " (reader)") if what == "rank lists" else None
                elif culprit == "populate" or culprit.startswith("ro_") or culprit.startswith("t_"):
                    if culprit == "populate":
                        self.V("C05", "C05.source-unchanged", culprit, detail)
                    self.V("C10", "C10.readonly-pure", culprit, detail)
                elif culprit.startswith("vr_"):
                    self.V("C10", "C10.operand-unchanged", culprit, detail)
                else:
                    self.V("C10", "C10.cross-talk", culprit, detail)
                # keep the world usable for the other properties
                if s in self.slots:
                    self.resync(s)
        # --- atomic rejection (C01)
        if status == "rejected:order":
            for s in targets:
                if s in before and after.get(s) != before[s]:
                    self.V("C01", "C01.rejected-atomic", culprit,
                           f"slot {s} changed by a {culprit} that was rejected for coordinate order")
                    self.V("C03", "C03.rejected-op-changes-nothing", culprit,
                           f"slot {s}: a {culprit} rejected for coordinate order changed what the points read as")
        # --- structural invariants on every tensor
        for s, sl in self.slots.items():
            if sl.free:
                errs = ob.wellformed(sl.t, sl.depth, where=f"slot{s}")
                if errs:
                    self.V("C01", "C01.wellformed", culprit, "; ".join(errs[:3]))
                continue
            errs = ob.wellformed(sl.root, sl.depth, where=f"slot{s}")
            if errs:
                self.V("C01", "C01.wellformed", culprit, "; ".join(errs[:3]))
                if culprit == "populate":
                    self.V("C05", "C05.z-wellformed-throughout", culprit, "; ".join(errs[:3]))
            errs = ob.mirror(sl.t, where=f"slot{s}")
            if errs:
                self.V("C02", "C02.rank-mirror", culprit, "; ".join(errs[:3]))
                if culprit == "populate":
                    self.V("C05", "C05.z-member-of-tensor-throughout", culprit, "; ".join(errs[:3]))
        # --- C10: distinct tensors never share mutable objects
        if self.prop == "C10" and (culprit.startswith("vr_") or kind == "op" and culprit in MUTATORS
                                   or culprit in ("new",)):
            self.check_disjoint(culprit)
        # --- content model (C03 / C05 judge it, everybody else follows the tree)
        for s in list(self.slots):
            sl = self.slots[s]
            if s in targets and not sl.free and not out.get("judged"):
                # <<= adopts the source's default: the leaf default is an attribute, follow it
                try:
                    d = Payload.get(sl.t.getDefault())
                    if not isinstance(d, type) and d != sl.default:
                        sl.default = d
                        self.probe("default_changed")
                except Exception:
                    pass
            if s in targets:
                if self.prop in ("C03", "C05") and out.get("judged"):
                    got = ob.content(sl.root, sl.default)
                    if got != sl.model:
                        diff = {str(k): (got.get(k), sl.model.get(k)) for k in set(got) | set(sl.model)
                                if got.get(k) != sl.model.get(k)}
                        self.V(self.prop, f"{self.prop}.content", culprit,
                               f"slot {s}: tree vs model differ at {dict(list(diff.items())[:4])} (tree, model)")
                        self.resync(s)
                else:
                    self.resync(s)
        self.revalidate_handles(culprit, targets)

    def check_disjoint(self, culprit):
        sets = {s: ob.identity_set(sl.t) for s, sl in self.slots.items()}
        ks = sorted(sets)
        for i, a in enumerate(ks):
            for b in ks[i + 1:]:
                common = set(sets[a]) & set(sets[b])
                if common:
                    kinds = sorted({sets[a][x] for x in common})
                    self.V("C10", "C10.no-alias", culprit,
                           f"slots {a} and {b} share {len(common)} mutable objects of kind {kinds}")

    def revalidate_handles(self, culprit, targets):
        for h in self.handles:
            if not h["alive"] or h["slot"] not in targets:
                continue
            sl = self.slots.get(h["slot"])
            if sl is not None and h["point"] == ():
                cur = sl.root
            else:
                cur = ob.find_payload(sl.root, h["point"]) if sl is not None else None
            if cur is not h["box"]:
                inplace_scale = culprit == "fimul" and getattr(self, "last_fimul_scalar", False)
                if (culprit in ("ref", "posref", "hw") or inplace_scale) and self.prop == "C03":
                    self.V("C03", "C03.handle-alias", culprit,
                           f"handle at {h['point']} of slot {h['slot']} no longer is the stored payload after {culprit}")
                h["alive"] = False

    def state_digest(self):
        return digest_of([self.snaps[s]["tree"] for s in sorted(self.snaps)])[:12]

    def nontrivial(self, log):
        ex = [e for e, o in log if isinstance(o, dict) and o.get("status") not in ("skipped", None)]
        return len(ex) >= 5 and (self.multi >= 1 or len(self.faults) > 0 or len(self.tasks) >= 1
                                 or len({e[1] for e in ex if e[0] == "op"}) >= 3)

    # ------------------------------------------------------------------ finish
    def finish(self):
        before = self.snaps
        targets = set()
        # cancel innermost first
        live = [t for t in self.tasks.values() if not t.done]
        live.sort(key=lambda t: -t.tid)
        n = 0
        for t in live:
            if not t.done:
                self._close(t, targets)
                n += 1
        self.after_event("finish", "finish", "ok", targets, before, {"judged": self.prop == "C05"})
        return {"cancelled_at_end": n}

    # ================================================================== constructors
    def op_new(self, a, targets):
        s = a["slot"]
        self.need_unfrozen(s)
        route = a["route"]
        depth = a["depth"]
        shape = list(a["shape"])
        ids = IDS[:depth]
        default = a.get("default", 0)
        if route == "empty":
            t = Tensor(rank_ids=ids, shape=shape, default=default)
        elif route == "noshape":
            # a tensor without declared shapes (shapes and active ranges are estimated from the content)
            t = Tensor(rank_ids=ids, default=default)
            for pt, v in a.get("ent", []):
                r = t.getPayloadRef(*pt)
                r <<= v
        elif route == "unc":
            t = Tensor.fromUncompressed(ids, a["nest"], default=default)
        elif route == "fib":
            f = build_fiber(a["spec"], shape, default=default, wrap=subtyped if self.cfg.get("subtyped") else None,
                            initial=a.get("initial"))
            if a.get("initial") is not None:
                self.probe("leaf_fibers_built_from_coords_and_one_initial_value")
            t = Tensor.fromFiber(ids, f, shape=shape, default=default)
            t.setMutable(True)
        elif route == "rand":
            t = Tensor.fromRandom(ids, shape, a["density"], a.get("interval", 9), seed=a["seed"])
        elif route == "pop":
            t = Tensor.makePopulated(ids, shape, initial=a.get("initial", 1), default=0)
            default = 0
        elif route == "free1":
            t = build_fiber(a["spec"], shape, default=default, initial=a.get("initial"))
        elif route == "rank0":
            t = Tensor(rank_ids=[], name="r0")
            r = t.getPayloadRef()
            r <<= a.get("initial", 0)
            shape = []
            default = 0
        elif route == "dcopy":
            src = self.slot(a["src"])
            if src.free:
                raise Skip("free")
            t = copy.deepcopy(src.t)
            shape = list(src.shape)
            default = src.default
        elif route == "yaml":
            src = self.slot(a["src"])
            if src.free or any(isinstance(x, (list, tuple)) for x in src.shape) or src.default != 0:
                raise Skip("yaml needs int coords")
            self.nfiles += 1
            fn = os.path.join(self.scratch, f"t{self.nfiles}.yaml")
            src.t.dump(fn)
            try:
                t = Tensor.fromYAMLfile(fn)
            except SystemExit:
                # the library could not load its own dump (tuple coordinates: known finding F13 of C13)
                self.probe("yaml_reload_exit")
                raise Skip("yaml reload called exit()")
            shape = list(src.shape)
            default = 0
        elif route == "adopt":
            # a sub-tree the program still holds although it was dropped from its tensor becomes the root of a new tensor
            hs = [h for h in self.ihandles if h["slot"] in self.slots]
            if not hs:
                raise Skip("no kept interior reference")
            h = hs[a.get("h", 0) % len(hs)]
            src = self.slots[h["slot"]]
            f = h["fiber"]
            if any(x is f for lv in ob.levels(src.root) for x in lv) or f.getOwner() is not None:
                raise Skip("not an orphan")
            # decided BEFORE the library is called: fromFiber re-owns every fiber below f, so a sub-fiber that a live
            # tensor holds (an earlier adoption of a lower orphan) would be taken away from it by the simulator itself
            live = {id(x) for sl2 in self.slots.values() for lv in ob.levels(sl2.root) for x in lv}
            if any(id(x) in live or x.getOwner() is not None for lv in ob.levels(f) for x in lv):
                raise Skip("shares fibers with a live tensor")
            below = src.depth - h["level"]
            if below < 1 or ob.wellformed(f, below):
                raise Skip("orphan is not a tree of uniform depth")
            shape = list(src.shape[h["level"]:])
            if any(not isinstance(x, int) for x in shape):
                raise Skip("shape")
            default = src.default
            t = Tensor.fromFiber([f"A{i}" for i in range(below)], f, shape=shape, default=default)
            self.ihandles = [x for x in self.ihandles if x is not h]
            depth = below
            self.probe("orphan_adopted_by_a_new_tensor")
        elif route == "setroot":
            # a fresh tensor whose root is adopted from an *owned* fiber of another tensor
            src = self.slot(a["src"])
            if src.free:
                raise Skip("free")
            k = a.get("level", 0)
            pre = dec_point(a.get("prefix", []))
            f = ob.find_fiber(src.root, pre)
            if f is None or len(pre) != k:
                raise Skip("no fiber")
            shape = list(src.shape[k:])
            if not shape:
                raise Skip("shape")
            default = src.default
            t = Tensor(rank_ids=[f"R{i}" for i in range(len(shape))], shape=[tuple(x) if isinstance(x, list) else x for x in shape], default=default)
            t.setRoot(f)
        else:
            raise Skip("route")
        if a.get("fmtU") and route != "yaml":
            for i, r in enumerate(ids[:len(t.ranks)]):
                if i in a["fmtU"]:
                    t.setFormat(t.getRankIds()[i], "U")
        if route == "adopt" and any(ob.identity_set(t).keys() & ob.identity_set(sl2.t).keys() for k2, sl2 in self.slots.items() if k2 != s):
            raise Skip("shares objects with a live tensor")
        self.slots[s] = Slot(t, shape, default, route)
        if route in PLAIN_ROUTES or (route == "dcopy" and a["src"] not in self.nonplain):
            self.nonplain.discard(s)
        else:
            self.nonplain.add(s)
        self.probe("new:" + route)
        for h in self.handles:
            if h["slot"] == s:
                h["alive"] = False
        targets.add(s)
        self.snaps.pop(s, None)
        return {"route": route}

    # ================================================================== C03 family
    def op_ref(self, a, targets):
        s = a["slot"]
        sl = self.slot(s)
        if a.get("during_walk"):
            # the body of a dense, element-creating walk also inserts elsewhere in the tensor it walks
            live = [t for t in self.tasks.values() if not t.done and s in t.slots]
            if not live or any(t.kind not in ("ishaperef",) for t in live) or self.prop not in ("C01", "C02"):
                raise Skip("only under a live dense reference walk")
            self.probe("insertion_during_dense_reference_walk")
        else:
            self.need_unfrozen(s)
        pre = dec_point(a.get("prefix", []))
        rest = dec_point(a["rest"])
        point = pre + rest
        if a.get("toolong") and len(point) == sl.depth + 1 and not sl.free:
            # a point with one coordinate too many: the call is rejected; what the tensor holds - and every handle a
            # caller already has - stays as it was (elements the rejected call created on its way are at the default)
            targets.add(s)
            recv0 = ob.find_fiber(sl.root, pre) if pre else (sl.t if a.get("via", "t") == "t" else sl.root)
            if recv0 is None:
                raise Skip("prefix")
            before_c = ob.content(sl.root, sl.default)
            try:
                recv0.getPayloadRef(*rest)
            except Exception:
                self.fault("rejected:too-many-coordinates")
                if ob.content(sl.root, sl.default) != before_c:
                    self.V("C03", "C03.rejected-op-changes-nothing", "ref",
                           f"getPayloadRef{point} on a depth-{sl.depth} tensor was rejected but changed its content")
                return {"status": "ok", "judged": True, "rejected": True}
            return self.unexpected("C03", "ref", AssertionError("a point with too many coordinates was accepted"), s) \
                if self.prop == "C03" else {"status": "exc:accepted"}
        if len(point) != sl.depth:
            raise Skip("arity")
        targets.add(s)
        judged = self.prop == "C03"
        if pre:
            f = ob.find_fiber(sl.root, pre)
            if f is None:
                raise Skip("prefix")
            recv = f
        else:
            recv = sl.t if a.get("via", "t") == "t" else sl.root
        kw = {}
        sp = a.get("sp")
        if sp is not None:
            if len(rest) != 1:
                raise Skip("sp arity")
            f0 = recv if isinstance(recv, Fiber) else sl.root
            if not (0 <= sp < max(1, len(f0.coords))):
                raise Skip("sp range")
            if sp > 0 and not (f0.coords[sp] <= rest[0]):
                raise Skip("sp illegal")
            kw["start_pos"] = sp
        existed = ob.find_payload(sl.root, point) is not None
        try:
            box = recv.getPayloadRef(*rest, **kw)
        except Exception as e:
            return self.unexpected("C03", "ref", e, s)
        stored = ob.find_payload(sl.root, point)
        if judged:
            if stored is None:
                self.V("C03", "C03.ref-creates-path", "ref", f"after getPayloadRef{point} the path does not exist")
            elif stored is not box:
                self.V("C03", "C03.ref-aliases", "ref", f"getPayloadRef{point} returned an object that is not the stored payload")
            if not isinstance(box, Payload):
                self.V("C03", "C03.ref-aliases", "ref", f"getPayloadRef{point} returned {type(box).__name__}")
            elif box.value != sl.model.get(point, sl.default):
                self.V("C03", "C03.ref-value", "ref",
                       f"handle at {point} shows {box.value!r}, model says {sl.model.get(point, sl.default)!r}")
        if not existed:
            self.probe("ref_created")
            if len(point) == 3 and ob.find_fiber(ob.root_of(sl.t), point[:1]) is not None:
                pass
        act = a.get("act", "none")
        res = self._write(sl, point, box, act, a.get("v"))
        if a.get("keep") and isinstance(box, Payload):
            self.handles.append({"slot": s, "point": point, "box": box, "alive": True, "born": self.cur_index})
        res["judged"] = True
        return res

    def _write(self, sl, point, box, act, v):
        d = sl.default
        cur = sl.model.get(point, d)
        orig = box
        if act == "set":
            box <<= v
            new = v
        elif act == "setbox":
            box <<= Payload(v)
            new = v
        elif act == "addbox":
            box += Payload(v)
            new = cur + v
        elif act == "add":
            box += v
            new = cur + v
        elif act == "mul":
            box *= v
            new = cur * v
        elif act == "mulbox":
            box *= Payload(v)
            new = cur * v
        elif act == "sub":
            box -= v
            new = cur - v
        elif act == "subbox":
            box -= Payload(v)
            new = cur - v
        elif act == "attr":
            box.v = v
            new = v
        elif act == "attrbox":
            box.v = Payload(v)
            new = v
        else:
            return {"act": "none"}
        if new != d:
            sl.model[point] = new
        else:
            sl.model.pop(point, None)
        # `h op= x` rebinds the caller's name to whatever the operator returns: the in-place operators must
        # hand back the very same box, otherwise the caller's next write through that name is lost
        if box is not orig and act not in ("attr", "attrbox"):
            self.V("C03", "C03.inplace-returns-handle", "hw" if self.prop == "C03" else "write",
                   f"in-place '{act}' through the handle at {point} returned a different object than the handle")
            self.V("C05", "C05.ref-into-z", "populate",
                   f"in-place '{act}' through the offered reference at {point} returned a different object")
        return {"act": act, "new": new}

    def op_hw(self, a, targets):
        hs = [h for h in self.handles if h["alive"]]
        if not hs:
            raise Skip("no live handle")
        h = hs[a["h"] % len(hs)]
        s = h["slot"]
        sl = self.slot(s)
        self.need_unfrozen(s)
        # the handle must still be the stored payload (otherwise it is stale, never written through)
        if (sl.root if h["point"] == () else ob.find_payload(sl.root, h["point"])) is not h["box"]:
            h["alive"] = False
            raise Skip("stale")
        targets.add(s)
        age = self.cur_index - h["born"]
        if age >= 3:
            self.probe("late_handle_write")
        res = self._write(sl, h["point"], h["box"], a["act"], a.get("v"))
        res["judged"] = True
        return res

    def op_posref(self, a, targets):
        s = a["slot"]
        sl, f = self.fiber_at(s, a["prefix"])
        self.need_unfrozen(s)
        pre = dec_point(a["prefix"])
        c = dec_coord(a["coord"])
        kw = {}
        sp = a.get("sp")
        if sp is not None:
            if not (0 <= sp < max(1, len(f.coords))) or (sp > 0 and not f.coords[sp] <= c):
                raise Skip("sp illegal")
            kw["start_pos"] = sp
        targets.add(s)
        try:
            idx = f.getPositionRef(c, **kw)
        except Exception as e:
            return self.unexpected("C03", "posref", e, s)
        if self.prop == "C03":
            if not (isinstance(idx, int) and 0 <= idx < len(f.coords) and f.coords[idx] == c):
                self.V("C03", "C03.position", "posref", f"getPositionRef({c}) returned {idx!r}; coords={f.coords!r}")
        return {"judged": True, "idx": idx if isinstance(idx, int) else repr(idx)}

    def op_get(self, a, targets):
        s = a["slot"]
        sl = self.slot(s)
        pre = dec_point(a.get("prefix", []))
        rest = dec_point(a["rest"])
        point = pre + rest
        if len(point) > sl.depth or not rest:
            raise Skip("arity")
        if pre:
            recv = ob.find_fiber(sl.root, pre)
            if recv is None:
                raise Skip("prefix")
        else:
            recv = sl.t if a.get("via", "t") == "t" else sl.root
        kw = {}
        if a.get("noalloc"):
            kw["allocate"] = False
            if "dflt" in a:
                kw["default"] = a["dflt"]
        sp = a.get("sp")
        if sp is not None:
            if len(rest) != 1:
                raise Skip("sp arity")
            f0 = recv if isinstance(recv, Fiber) else sl.root
            if not (0 <= sp < max(1, len(f0.coords))) or (sp > 0 and not f0.coords[sp] <= rest[0]):
                raise Skip("sp illegal")
            kw["start_pos"] = sp
        try:
            got = recv.getPayload(*rest, **kw)
        except Exception as e:
            return self.unexpected("C03", "get", e, s)
        full = len(point) == sl.depth
        stored = ob.find_payload(sl.root, point)
        # expected
        if self.prop == "C03":
            if full:
                if point in sl.model:
                    want = sl.model[point]
                elif stored is not None:
                    want = sl.default          # explicit default stored
                elif a.get("noalloc"):
                    # absent: the caller's default (None if none given) -- unless an interior
                    # level was absent, in which case the same default is returned
                    want = a.get("dflt", None)
                else:
                    want = sl.default
                gv = got.value if isinstance(got, Payload) else got
                if isinstance(got, Fiber) or gv != want:
                    self.V("C03", "C03.read-value", "get",
                           f"getPayload{point} {kw} returned {got!r}, expected {want!r}")
            else:
                k = len(point)
                sub = {p[k:]: v for p, v in sl.model.items() if p[:k] == point}
                exists = ob.find_fiber(sl.root, point) is not None
                if isinstance(got, Fiber):
                    gc = ob.content(got, sl.default)
                    if gc != sub:
                        self.V("C03", "C03.read-prefix", "get",
                               f"getPayload{point} returned a fiber with content {gc}, model says {sub}")
                    if exists and got is not ob.find_fiber(sl.root, point):
                        self.V("C03", "C03.read-prefix", "get",
                               f"getPayload{point} did not return the stored sub-fiber")
                else:
                    if not (a.get("noalloc") and not exists):
                        self.V("C03", "C03.read-prefix", "get",
                               f"getPayload{point} {kw} returned {got!r} instead of a fiber")
        if a.get("scribble") and isinstance(got, Payload) and stored is None:
            # the box synthesised for an absent point belongs to the caller
            got <<= 424242
            self.probe("scribbled_default")
        return {"judged": True}

    def op_getpos(self, a, targets):
        s = a["slot"]
        sl, f = self.fiber_at(s, a["prefix"])
        c = dec_coord(a["coord"])
        kw = {}
        sp = a.get("sp")
        if sp is not None:
            if not (0 <= sp < max(1, len(f.coords))) or (sp > 0 and not f.coords[sp] <= c):
                raise Skip("sp illegal")
            kw["start_pos"] = sp
        try:
            idx = f.getPosition(c, **kw)
        except Exception as e:
            return self.unexpected("C03", "getpos", e, s)
        if self.prop == "C03":
            want = f.coords.index(c) if c in f.coords else None
            if idx != want:
                self.V("C03", "C03.position", "getpos",
                       f"getPosition({c}, {kw}) returned {idx!r}, coords={f.coords!r}")
        return {"judged": True}

    def op_r0(self, a, targets):
        """point access on a rank-0 tensor: the empty point"""
        s = a["slot"]
        sl = self.slot(s)
        if sl.free or sl.depth != 0:
            raise Skip("not rank-0")
        t = sl.t
        act = a["act"]
        cur = sl.model.get((), sl.default)
        try:
            if act == "get":
                got = t.getPayload()
                gv = got.value if isinstance(got, Payload) else got
                if self.prop == "C03" and gv != cur:
                    self.V("C03", "C03.read-value", "r0", f"rank-0 getPayload() returned {got!r}, expected {cur!r}")
                return {"judged": True}
            box = t.getPayloadRef()
        except Exception as e:
            return self.unexpected("C03", "r0", e, s)
        targets.add(s)
        if self.prop == "C03":
            if box is not ob.root_of(t) or not isinstance(box, Payload):
                self.V("C03", "C03.ref-aliases", "r0", "rank-0 getPayloadRef() did not return the stored payload")
            elif box.value != cur:
                self.V("C03", "C03.ref-value", "r0", f"rank-0 handle shows {box.value!r}, model says {cur!r}")
        res = self._write(sl, (), box, a.get("wact", "none"), a.get("v"))
        if a.get("keep") and isinstance(box, Payload):
            self.handles.append({"slot": s, "point": (), "box": box, "alive": True, "born": self.cur_index})
        res["judged"] = True
        return res

    def gen_r0(self, g):
        s = self.pick_slot(g, rank0=True)
        if s is None:
            return None
        r = g.random()
        if r < 0.4:
            return ["op", "r0", {"slot": s, "act": "get"}]
        act, v = self._leaf_action(g)
        if v == "DEFAULT":
            v = 0
        return ["op", "r0", {"slot": s, "act": "ref", "wact": act, "v": v, "keep": g.random() < 0.3}]

    def unexpected(self, prop, culprit, e, s=None):
        """an exception escaped a call that the property's family says must work"""
        import traceback
        tb = traceback.extract_tb(e.__traceback__)
        where = ""
        for fr in reversed(tb):
            if "/fibertree/" in fr.filename:
                where = f"{os.path.basename(fr.filename)}:{fr.name}"
                break
        self.V(prop, f"{prop}.no-exception", culprit, f"{type(e).__name__} {str(e)[:120]} at {where}")
        self.probe(f"exc:{culprit}:{type(e).__name__}")
        return {"status": f"exc:{type(e).__name__}", "where": where}

    # ================================================================== other mutators
    def _mut(self, a, targets, need_leaf=None):
        s = a["slot"]
        sl, f = self.fiber_at(s, a["prefix"])
        self.need_unfrozen(s)
        level = len(a["prefix"])
        if sl.free:
            self.probe("mutator_on_free_fiber")
        leaf = level == sl.depth - 1
        if need_leaf is True and not leaf:
            raise Skip("needs leaf fiber")
        targets.add(s)
        return sl, f, level, leaf

    def op_append(self, a, targets):
        sl, f, level, leaf = self._mut(a, targets, need_leaf=True)
        c = dec_coord(a["coord"])
        try:
            f.append(c, subtyped(a["v"]) if self.cfg.get("subtyped") else a["v"])
        except AssertionError as e:
            if "monotonically" in str(e):
                self.fault("rejected:append")
                return {"status": "rejected:order"}
            return {"status": "exc:AssertionError"}
        except Exception as e:
            return {"status": f"exc:{type(e).__name__}"}
        return {}

    def op_setdef(self, a, targets):
        """the empty value of the tensor's leaf rank is changed (Tensor.setDefault): from now on absent points read as it"""
        s = a["slot"]
        sl = self.slot(s)
        self.need_unfrozen(s)
        if sl.free or sl.depth < 1:
            raise Skip("tensor with ranks")
        try:
            sl.t.setDefault(a["v"])
        except Exception as e:
            return {"status": f"exc:{type(e).__name__}"}
        sl.default = a["v"]
        targets.add(s)
        for h in self.handles:
            if h["slot"] == s:
                h["alive"] = h["alive"] and True
        self.probe("leaf_default_changed")
        return {}

    def gen_setdef(self, g):
        s = self.pick_slot(g)
        if s is None or self.slots[s].free or self.slots[s].depth < 1:
            return None
        return ["op", "setdef", {"slot": s, "v": g.choice([5, -1, 2.5, 0, 0])}]

    def op_iol(self, a, targets):
        """the deprecated (but public) insert-or-look-up: with a value at a leaf fiber, without one anywhere"""
        sl, f, level, leaf = self._mut(a, targets)
        c = dec_coord(a["coord"])
        if any(type(x) is not type(c) for x in f.coords):
            raise Skip("coordinate kind")
        try:
            if leaf and "v" in a:
                r = f.insertOrLookup(c, a["v"])
            else:
                r = f.insertOrLookup(c)
        except Exception as e:
            return {"status": f"exc:{type(e).__name__}"}
        self.probe("insert_or_lookup:" + ("existing" if a.get("_") else "any"))
        return {}

    def gen_iol(self, g):
        s = self.pick_slot(g)
        if s is None:
            return None
        sl = self.slots[s]
        k = g.randrange(sl.depth)
        pre = self.existing_prefix(g, sl, k)
        if pre is None:
            return None
        f = ob.find_fiber(sl.root, pre)
        S = sl.shape[k]
        if f is None or not isinstance(S, int):
            return None
        c = self.rand_coord(g, S, f, 0.4)
        if g.random() < 0.3:
            c = (max(f.coords) if f.coords else -1) + 1        # beyond the last stored coordinate
        a = {"slot": s, "prefix": enc_point(pre), "coord": c}
        if k == sl.depth - 1 and g.random() < 0.5:
            a["v"] = self.nextval()
        return ["op", "iol", a]

    def op_extend(self, a, targets):
        sl, f, level, leaf = self._mut(a, targets, need_leaf=True)
        other = Fiber([dec_coord(c) for c in a["coords"]], list(a["vals"]))
        try:
            f.extend(other)
        except AssertionError as e:
            if "monotonically" in str(e):
                self.fault("rejected:extend")
                return {"status": "rejected:order"}
            return {"status": "exc:AssertionError"}
        except Exception as e:
            return {"status": f"exc:{type(e).__name__}"}
        return {}

    def op_setitem(self, a, targets):
        sl, f, level, leaf = self._mut(a, targets)
        pos = a["pos"]
        c = a.get("coord")
        v = a.get("v")
        if not leaf:
            v = None          # interior: coordinate-only update keeps the tree type-correct
            if c is None:
                raise Skip("nothing to do")
        if self.cfg.get("subtyped"):
            v = subtyped(v)
        if c is not None:
            c = dec_coord(c)
            val = CoordPayload(c, v)
        else:
            val = v
        try:
            if not sl.free and level == 0 and a.get("via") == "t":
                sl.t[pos] = val           # the tensor-level wrapper
            else:
                f[pos] = val
        except CoordinateError:
            self.fault("rejected:setitem")
            self.probe("setitem_rejected")
            return {"status": "rejected:order"}
        except IndexError:
            self.fault("rejected:index")
            return {"status": "rejected:index"}
        except Exception as e:
            return {"status": f"exc:{type(e).__name__}"}
        return {}

    def op_fiadd(self, a, targets):
        sl, f, level, leaf = self._mut(a, targets, need_leaf=True)
        if "scalar" in a:
            if not isinstance(self.level_shape(sl, level), int):
                raise Skip("dense needs int shape")
            other = a["scalar"]
        else:
            other = Fiber([dec_coord(c) for c in a["coords"]], list(a["vals"]))
        try:
            f.__iadd__(other)
        except Exception as e:
            return {"status": f"exc:{type(e).__name__}"}
        return {}

    def op_fimul(self, a, targets):
        sl, f, level, leaf = self._mut(a, targets, need_leaf=True)
        if "scalar" in a:
            other = a["scalar"]
        else:
            other = Fiber([dec_coord(c) for c in a["coords"]], list(a["vals"]))
        # fiber *= scalar scales the stored boxes in place: a handle taken earlier stays the stored payload
        self.last_fimul_scalar = "scalar" in a          # (also for 0: the boxes stay, holding explicit zeros)
        try:
            f.__imul__(other)
        except Exception as e:
            return {"status": f"exc:{type(e).__name__}"}
        return {}

    def op_filshift(self, a, targets):
        sl, f, level, leaf = self._mut(a, targets)
        if "usrc" in a:
            # the right-hand side presents its elements out of coordinate order: an unordered fiber, or a lazy
            # projection through a function that permutes or collapses coordinates. The (ordered) target must
            # stay well-formed whatever it is assigned from.
            if not leaf or sl.free or any(not isinstance(c, int) for c in f.coords):
                raise Skip("leaf fiber with int coordinates")
            cs, vs = a["usrc"]["coords"], a["usrc"]["vals"]
            try:
                if a["usrc"]["kind"] == "unordered":
                    src = Fiber(list(cs), list(vs), ordered=False)
                else:
                    base = Fiber(sorted(set(cs)), list(vs)[:len(set(cs))])
                    fn = (lambda c: c // 2) if a["usrc"]["kind"] == "collapse" else (lambda c: (3 * c) % 7)
                    src = base.project(trans_fn=fn)
                f.__ilshift__(src)
            except Exception as e:
                return {"status": f"exc:{type(e).__name__}"}
            self.probe("filshift_from_unordered_source:" + a["usrc"]["kind"])
            return {}
        osl, of = self.fiber_at(a["src"], a["src_prefix"])
        if a["src"] == a["slot"]:
            raise Skip("same tensor")
        if osl.depth - len(a["src_prefix"]) != sl.depth - level:
            raise Skip("level mismatch")
        if not self.kinds_ok(sl, level, f, osl, len(a["src_prefix"]), of):
            raise Skip("coordinate kinds differ")
        try:
            f.__ilshift__(of)
        except Exception as e:
            return {"status": f"exc:{type(e).__name__}"}
        return {}

    def op_updc(self, a, targets):
        sl, f, level, leaf = self._mut(a, targets)
        S = self.level_shape(sl, level)
        if not isinstance(S, int):
            raise Skip("int shape")
        kind = a["fn"]
        k = a.get("k", 1)
        if kind == "rev":
            fn = lambda i, c, p: S - 1 - c
        elif kind == "rot":
            fn = lambda i, c, p: (c + k) % S
        elif kind == "id":
            fn = lambda i, c, p: c
        else:
            raise Skip("fn")
        if any((not isinstance(c, int)) or c < 0 or c >= S for c in f.coords):
            raise Skip("coords outside shape")
        try:
            if a.get("via") == "t" and level == 0 and False:
                pass
            f.updateCoords(fn)
        except Exception as e:
            return {"status": f"exc:{type(e).__name__}"}
        return {}

    def op_updbelow(self, a, targets):
        """updateCoords / updatePayloads reaching `depth` levels below the addressed fiber"""
        sl, f, level, leaf = self._mut(a, targets)
        d = a["depth"]
        tgt = level + d
        if tgt >= sl.depth or d < 1:
            raise Skip("depth")
        S = self.level_shape(sl, tgt)
        if not isinstance(S, int):
            raise Skip("int shape")
        try:
            if a["what"] == "coords":
                if tgt != sl.depth - 1 and False:
                    pass
                f.updateCoords(lambda i, c, p: S - 1 - c if isinstance(c, int) and 0 <= c < S else c, depth=d)
            else:
                if tgt != sl.depth - 1:
                    raise Skip("payload updates only at the leaf level")
                k = a.get("k", 1)
                f.updatePayloads(lambda i, c, p: Payload(Payload.get(p) + k), depth=d)
        except Skip:
            raise
        except Exception as e:
            return {"status": f"exc:{type(e).__name__}"}
        return {}

    def op_updp(self, a, targets):
        sl, f, level, leaf = self._mut(a, targets, need_leaf=True)
        k = a.get("k", 1)
        kind = a["fn"]
        if kind == "inc":
            fn = lambda i, c, p: Payload(Payload.get(p) + k)
        elif kind == "same":
            fn = lambda i, c, p: p
        elif kind == "zero":
            fn = lambda i, c, p: Payload(0)
        else:
            raise Skip("fn")
        try:
            f.updatePayloads(fn)
        except Exception as e:
            return {"status": f"exc:{type(e).__name__}"}
        return {}

    def op_reroot(self, a, targets):
        """Tensor.setRoot() with a fresh, unowned top fiber that re-uses sub-fibers the tensor already owns
        (a row dropped in place)"""
        s = a["slot"]
        sl = self.slot(s)
        self.need_unfrozen(s)
        if sl.free or sl.depth < 2:
            raise Skip("needs an interior level")
        root = sl.root
        keep = [i for i in range(len(root.coords)) if not ((a.get("dropmask", 0) >> i) & 1)]
        top = Fiber([root.coords[i] for i in keep], [root.payloads[i] for i in keep])
        targets.add(s)
        try:
            sl.t.setRoot(top)
        except Exception as e:
            return {"status": f"exc:{type(e).__name__}"}
        return {"kept": len(keep)}

    def op_orphan(self, a, targets):
        """use a reference the program kept although its element has since been removed from the tensor:
        whatever happens to the orphan, no tensor may change"""
        hs = [h for h in self.ihandles if h["slot"] in self.slots]
        if not hs:
            raise Skip("no kept interior reference")
        h = hs[a["h"] % len(hs)]
        sl = self.slots[h["slot"]]
        f = h["fiber"]
        # still in the tree? then it is not an orphan
        for lv in ob.levels(sl.root):
            if any(x is f for x in lv):
                raise Skip("still in the tree")
        # ... nor is it one if the `adopt` route has meanwhile made it, or a fiber below it, part of a live tensor
        live = {id(x) for sl2 in self.slots.values() for lv in ob.levels(sl2.root) for x in lv}
        if any(id(x) in live for lv in ob.levels(f) for x in lv):
            raise Skip("adopted meanwhile")
        below = sl.depth - h["level"]
        if below < 1:
            raise Skip("level")
        pt = [a["c"] + i for i in range(below)]
        try:
            r = f.getPayloadRef(*pt)
            if isinstance(r, Payload):
                r <<= 7
        except Exception as e:
            return {"status": f"exc:{type(e).__name__}"}
        self.probe("orphan_reference_used")
        return {}

    def gen_adopt(self, g):
        if not self.ihandles or self.prop not in ("C01", "C02", "C10"):
            return None
        cands = [s for s in self.slots if not self.frozen(s)]
        if len(self.slots) < 2 or not cands:
            return None
        live = {h["slot"] for h in self.ihandles}
        cands = [s for s in cands if s not in live] or cands
        return ["op", "new", {"slot": g.choice(cands), "route": "adopt", "depth": 1, "shape": [1], "default": 0,
                              "h": g.randrange(1 << 16)}]

    def gen_reroot(self, g):
        s = self.pick_slot(g)
        if s is None or self.slots[s].depth < 2:
            return None
        return ["op", "reroot", {"slot": s, "dropmask": g.getrandbits(6)}]

    def gen_orphan(self, g):
        if not self.ihandles:
            return None
        return ["op", "orphan", {"h": g.randrange(1 << 16), "c": g.randrange(4)}]

    def op_regrow(self, a, targets):
        """use a source of unknown extent, let it grow, use it again (C05): a tensor without a declared shape whose
        leaf rank is declared uncompressed presents [0, largest coordinate + 1) *at the time of each loop*"""
        sl = self.slot(a["slot"])
        self.need_unfrozen(a["slot"])
        if sl.free or a["slot"] in self.nonplain or sl.depth < 1:
            raise Skip("plain tensors only")
        if sl.t.getShape(authoritative=True) is not None:
            raise Skip("declared shape")
        pre = dec_point(a.get("prefix", []))
        if len(pre) != sl.depth - 1:
            raise Skip("leaf fiber")
        af = ob.find_fiber(sl.root, pre)
        if af is None or not af.coords or any(not isinstance(c, int) or isinstance(c, bool) for c in af.coords):
            raise Skip("leaf fiber with int coordinates")
        rank = af.getOwner()
        if rank is None or rank.getFormat() != "U":
            raise Skip("uncompressed rank")
        targets.add(a["slot"])
        rid = str(sl.t.getRankIds()[-1])

        def once(tag):
            z = Tensor(rank_ids=[rid])
            seen = []
            for c, (zr, av) in z.getRoot() << af:
                seen.append(c)
                if Payload.get(av) != sl.default:
                    zr <<= Payload.get(av)
            want = list(range(0, max(af.coords) + 1))
            if seen != want:
                self.V("C05", "C05.offered-coordinates", "regrow",
                       f"{tag} loop over the uncompressed source at {pre} (coords {af.coords}, no declared shape) offered "
                       f"{seen}, its active range is {want[0]}..{want[-1]}")
            wantc = {(c,): Payload.get(p) for c, p in zip(af.coords, af.payloads) if Payload.get(p) != sl.default}
            if ob.content(z.getRoot(), sl.default) != wantc:
                self.V("C05", "C05.result-content", "regrow",
                       f"{tag} loop: copy of the source is {ob.content(z.getRoot(), sl.default)}, the source holds {wantc}")
        try:
            once("first")
            top = max(af.coords) + 1 + a.get("grow", 1)
            r = sl.t.getPayloadRef(*(tuple(pre) + (top,)))
            r <<= a.get("v", 1)
            once("second")
        except Violation:
            raise
        except Exception as e:
            return self.unexpected("C05", "regrow", e)
        self.probe("regrow_checked")
        return {}        # the slot's content model follows the tree (the growth is this operation's own write)

    def gen_regrow(self, g):
        c = [s for s, sl in self.slots.items() if sl.origin == "noshape" and s not in self.nonplain and not self.frozen(s)
             and sl.depth >= 1 and sl.t.ranks[-1].getFormat() == "U"]
        if not c:
            return None
        s = g.choice(c)
        sl = self.slots[s]
        pre = self.existing_prefix(g, sl, sl.depth - 1)
        if pre is None:
            return None
        return ["op", "regrow", {"slot": s, "prefix": enc_point(pre), "grow": g.randint(0, 3), "v": self.nextval()}]

    def op_clear(self, a, targets):
        sl, f, level, leaf = self._mut(a, targets)
        try:
            f.clear()
        except Exception as e:
            return {"status": f"exc:{type(e).__name__}"}
        return {}

    # ================================================================== live traversals
    def new_task(self, tid, kind):
        if tid in self.tasks:
            raise Skip("tid in use")
        t = Task(tid, kind)
        self.tasks[tid] = t
        return t

    def ev_start(self, tid, kind, a, targets):
        fn = getattr(self, "start_" + kind, None)
        if fn is None:
            raise Skip("task kind")
        if tid in self.tasks:
            raise Skip("tid in use")
        return fn(tid, a, targets)

    def steppable(self, t):
        return (not t.done) and (t.child is None or self.tasks[t.child].done)

    def ev_step(self, tid, action, targets):
        t = self.tasks.get(tid)
        if t is None or t.done:
            raise Skip("no such live task")
        if not self.steppable(t):
            raise Skip("has a live child")
        self.multi += 1
        return getattr(self, "step_" + t.kind)(t, action, targets)

    def ev_cancel(self, tid, targets):
        t = self.tasks.get(tid)
        if t is None or t.done:
            raise Skip("no such live task")
        if not self.steppable(t):
            raise Skip("has a live child")
        self.fault("cancel:" + t.kind)
        if t.yields > 0:
            self.probe("cancel_mid_traversal")
        self._taint(t)
        self._close(t, targets)
        return {"judged": True, "cancelled_after": t.yields}

    def _taint(self, t):
        """a cancelled traversal may leave its just-created element behind: every enclosing
        loop's current coordinate is exempt from the leaves-nothing-behind clause"""
        p = self.tasks.get(t.parent) if t.parent is not None else None
        while p is not None:
            if p.cur is not None:
                p.info.setdefault("tainted", set()).add(ob._k(p.cur[0]))
            p = self.tasks.get(p.parent) if p.parent is not None else None

    def _close(self, t, targets):
        try:
            if t.gen is not None and hasattr(t.gen, "close"):        # (an iterator that is not a generator has nothing to close)
                t.gen.close()
        finally:
            t.done = True
        if t.zslot is not None:
            targets.add(t.zslot)
        if t.kind == "coishaperef" and t.aslot is not None:
            targets.add(t.aslot)
        if t.parent is not None:
            p = self.tasks.get(t.parent)
            if p is not None and p.child == t.tid:
                p.child = None

    # ---- populate  z << a
    def start_populate(self, tid, a, targets):
        parent = a.get("parent")
        if parent is not None:
            p = self.tasks.get(parent)
            if p is None or p.done or p.kind != "populate" or p.cur is None or p.child is not None \
                    or not p.info.get("interior"):
                raise Skip("parent not at an interior yield")
            zf, af = p.cur[1]
            if not isinstance(zf, Fiber) or not isinstance(af, Fiber):
                raise Skip("not fibers")
            zs, as_ = p.zslot, p.aslot
            zpre = p.info["zpre"] + (p.cur[0],)
            apre = p.info["apre"] + (p.cur[0],)
            if p.info.get("descended"):
                raise Skip("already descended at this yield")
        else:
            zs, as_ = a["z"], a["a"]
            if zs == as_:
                raise Skip("same tensor")
            self.need_unfrozen(zs)
            self.need_unfrozen(as_)
            zsl, zf = self.fiber_at(zs, a["zpre"])
            asl, af = self.fiber_at(as_, a["apre"])
            if zsl.depth - len(a["zpre"]) != asl.depth - len(a["apre"]):
                raise Skip("levels differ")
            if not self.kinds_ok(zsl, len(a["zpre"]), zf, asl, len(a["apre"]), af):
                raise Skip("coordinate kinds differ (int vs tuple): not a populate a caller could write")
            zpre, apre = dec_point(a["zpre"]), dec_point(a["apre"])
        zsl, asl = self.slot(zs), self.slot(as_)
        t = self.new_task(tid, "populate")
        t.slots = {zs, as_}
        t.zslot, t.aslot = zs, as_
        t.parent = parent
        interior = len(zpre) < zsl.depth - 1
        fmt = af.getOwner().getFormat() if af.getOwner() is not None else af.getRankAttrs().getFormat()
        alevel = len(apre)
        if fmt == "U":
            S = asl.shape[alevel]
            if not isinstance(S, int):
                self.tasks.pop(tid)
                raise Skip("U needs int shape")
            lo, hi = af.getActive()
            if not (isinstance(lo, int) and isinstance(hi, int)):
                self.tasks.pop(tid)
                raise Skip("U needs an integer active range")
            if as_ not in self.nonplain and all(isinstance(c, int) for c in af.coords):
                # nothing ever set an active range on this tensor: the range is the declared shape or,
                # without one, what the fiber holds now (not what it held at some earlier question)
                auth = asl.t.getShape(authoritative=True) if not asl.free else None
                lo = 0
                hi = auth[alevel] if auth is not None else (max(af.coords) + 1 if af.coords else 0)
                if not isinstance(hi, int):
                    self.tasks.pop(tid)
                    raise Skip("U needs an integer shape")
                self.probe("populate_U_source_modelled_range")
            exp = list(range(lo, hi))
            self.probe("populate_U_source")
        else:
            exp = [c for c, p in zip(af.coords, af.payloads) if not _empty(p, asl.default)]
        t.info = {"zpre": zpre, "apre": apre, "interior": interior, "exp": exp, "got": [],
                  "z_before_coords": list(zf.coords),
                  "z_before": {ob._k(c): ob.enc_fiber(p) if isinstance(p, Fiber) else ["v", ob.enc_value(p.value)]
                               for c, p in zip(zf.coords, zf.payloads)} if True else None,
                  "zf": zf, "af": af, "fmt": fmt, "written": set()}
        if parent is not None:
            p.child = tid
            p.info["descended"] = True
            self.probe("nested_populate")
        try:
            sp = a.get("sp")
            if sp is not None and exp and isinstance(exp[0], int) and 1 <= sp <= len(zf.coords) \
                    and all(isinstance(c, int) for c in zf.coords) and zf.coords[sp - 1] < exp[0]:
                lazy = zf.__lshift__(af, start_pos=sp)        # only a shortcut for the search in z
                self.probe("populate_with_start_pos")
            else:
                # the program may have built `z << a` for these two fibers before and walk the same object again:
                # a second walk is a populate like the first
                keep = self.__dict__.setdefault("_pop_objects", {})
                key = (id(zf), id(af))
                old = keep.get(key)
                if a.get("reuse") and old is not None and old[0] is zf and old[1] is af:
                    lazy = old[2]
                    self.probe("populate_object_walked_again")
                else:
                    lazy = zf << af
                    keep[key] = (zf, af, lazy)
            t.gen = iter(lazy)
        except Exception as e:
            t.done = True
            if parent is not None:
                p.child = None
            return self.unexpected("C05", "populate", e)
        targets.add(zs)
        zfmt = zf.getOwner().getFormat() if zf.getOwner() is not None else "C"
        reused = bool(a.get("reuse")) and t.gen is not None and self.__dict__.get("_pop_objects", {}).get((id(zf), id(af)), (None,))[0] is zf
        if zfmt == "U" and self.prop == "C05" and not reused:       # (the range is set when `z << a` is built, not per walk)
            # a destination whose rank is declared uncompressed presents its whole active range later on:
            # that range is the one the populate defines (the source's)
            self.probe("populate_U_destination")
            try:
                za, aa = zf.getActive(), af.getActive()
            except Exception:
                za = aa = None
            if za != aa:
                self.V("C05", "C05.active-range-follows-source", "populate",
                       f"after z << a the uncompressed destination at {zpre} has active range {za}, the source's is {aa}")
        return {"judged": True, "exp": len(exp), "fmt": fmt}

    def step_populate(self, t, action, targets):
        zsl, asl = self.slot(t.zslot), self.slot(t.aslot)
        info = t.info
        targets.add(t.zslot)
        try:
            item = next(t.gen)
        except StopIteration:
            t.done = True
            t.cur = None
            if t.parent is not None:
                p = self.tasks.get(t.parent)
                if p is not None:
                    p.child = None
            self._populate_done(t, zsl, asl)
            return {"judged": True, "end": True}
        except Exception as e:
            t.done = True
            if t.parent is not None:
                p = self.tasks.get(t.parent)
                if p is not None:
                    p.child = None
            return self.unexpected("C05", "populate", e)
        t.yields += 1
        info["descended"] = False
        if t.yields > len(info["exp"]) + 2:
            self.V("C05", "C05.yield-sequence", "populate", f"yielded more than the source presents: {info['got']}")
            t.done = True
            return {"judged": True}
        try:
            c, (zr, av) = item
        except Exception:
            self.V("C05", "C05.yield-shape", "populate", f"yielded {item!r}")
            t.done = True
            return {}
        t.cur = (c, (zr, av))
        info["got"].append(c)
        point = info["zpre"] + (c,)
        apoint = info["apre"] + (c,)
        if self.prop == "C05":
            n = len(info["got"])
            if info["got"] != info["exp"][:n]:
                self.V("C05", "C05.yield-sequence", "populate",
                       f"yielded coordinates {info['got']}, source presents {info['exp']}")
            # reference into z: is the stored payload, shows the model's value
            stored = ob.find_payload(zsl.root, point)
            if stored is None or stored is not zr:
                self.V("C05", "C05.ref-into-z", "populate",
                       f"reference offered at {point} is not the payload stored in z")
            a_stored = ob.find_payload(asl.root, apoint)
            if info["interior"]:
                if not isinstance(zr, Fiber) or not isinstance(av, Fiber):
                    self.V("C05", "C05.yield-shape", "populate",
                           f"interior level offered {type(zr).__name__}/{type(av).__name__}")
                else:
                    k = len(point)
                    sub = {p[k:]: v for p, v in zsl.model.items() if p[:k] == point}
                    if ob.content(zr, zsl.default) != sub:
                        self.V("C05", "C05.ref-value", "populate",
                               f"z sub-fiber offered at {point} has content {ob.content(zr, zsl.default)}, model {sub}")
                    ka = len(apoint)
                    suba = {p[ka:]: v for p, v in asl.model.items() if p[:ka] == apoint}
                    if ob.content(av, asl.default) != suba:
                        self.V("C05", "C05.a-payload", "populate",
                               f"source payload offered at {apoint} has content {ob.content(av, asl.default)}, a holds {suba}")
            else:
                if not isinstance(zr, Payload) or isinstance(av, Fiber):
                    self.V("C05", "C05.yield-shape", "populate",
                           f"leaf level offered {type(zr).__name__}/{type(av).__name__}")
                else:
                    want = zsl.model.get(point, zsl.default)
                    if zr.value != want:
                        self.V("C05", "C05.ref-value", "populate",
                               f"reference at {point} shows {zr.value!r}, z holds {want!r}")
                    wa = asl.model.get(apoint, asl.default)
                    if Payload.get(av) != wa:
                        self.V("C05", "C05.a-payload", "populate",
                               f"source payload at {apoint} is {av!r}, a holds {wa!r}")
        # the body
        act = action.get("act", "leave")
        res = {"judged": True, "c": ob.enc_coord(c), "act": act}
        if info["interior"] and act == "rowacc" and isinstance(zr, Fiber) and isinstance(av, Fiber) \
                and len(point) == zsl.depth - 1 and len(apoint) == asl.depth - 1 and self.prop == "C05" \
                and all(isinstance(x, int) for x in list(zr.coords) + list(av.coords)) and zsl.default == 0 \
                and asl.default == 0 and av.getOwner() is not None and av.getOwner().getFormat() == "C":
            # the body accumulates the whole offered row: z_k += a_k (fiber += fiber)
            add = {cc: Payload.get(pp) for cc, pp in zip(av.coords, av.payloads) if Payload.get(pp) != 0}
            try:
                zr += av
            except Exception as e:
                return self.unexpected("C05", "populate", e)
            for cc, v in add.items():
                k = point + (cc,)
                nv = zsl.model.get(k, 0) + v
                if nv != 0:
                    zsl.model[k] = nv
                else:
                    zsl.model.pop(k, None)
            info["written"].add(c)
            info["rowacc"] = True
            self.probe("populate_row_accumulated")
            # "a is never modified": nothing of the source row may have become part of z
            mine = {id(pp) for pp in zr.payloads}
            if any(id(pp) in mine for pp in av.payloads):
                self.V("C05", "C05.source-unchanged", "populate",
                       f"after z_k += a_k at {point} the destination row holds the source row's own payload objects: "
                       f"the next update of z changes a")
            res["act"] = "rowacc"
            return res
        if info["interior"]:
            res["act"] = "interior"
            if isinstance(zr, Fiber) and len(self.ihandles) < 8:
                # the body keeps the offered reference (and may use it after the loop dropped the element)
                self.ihandles.append({"slot": t.zslot, "fiber": zr, "level": len(point)})
            return res
        if not isinstance(zr, Payload):
            return res
        if act == "elsewhere":
            # the offered reference stays untouched; the body writes at another coordinate of the row being populated
            # (a second tile, a neighbour): the loop's own tidying of the untouched element must not hit that one
            c2, zf = action["c2"], info["zf"]
            if c2 != c and isinstance(c, int) and all(isinstance(x, int) for x in zf.coords) and t.child is None \
                    and (zf.getOwner() is None or zf.getOwner().getFormat() == "C"):
                p2 = info["zpre"] + (c2,)
                try:
                    box = zf.getPayloadRef(c2)
                except Exception as e:
                    return self.unexpected("C05", "populate", e)
                if isinstance(box, Payload):
                    self._write(zsl, p2, box, "set", action["v"])
                    info.setdefault("tainted", set()).add(ob._k(c2))
                    info["z_before"][ob._k(c2)] = ["v", ob.enc_value(action["v"])]
                    self.probe("populate_body_inserted_elsewhere_in_the_row")
            if ob._k(c) in info["z_before"]:
                self.probe("populate_left_existing_alone")
        elif act == "assign":
            self._write(zsl, point, zr, "set", action["v"])
            info["written"].add(c)
        elif act == "acc":
            self._write(zsl, point, zr, "add", action["v"])
            info["written"].add(c)
        elif act == "accsrc":
            v = Payload.get(av)
            if isinstance(v, (int, float)):
                self._write(zsl, point, zr, "add", v)
                info["written"].add(c)
        elif act == "zero":
            self._write(zsl, point, zr, "set", zsl.default)
            info["written"].add(c)
            self.probe("populate_wrote_default")
            if ob._k(c) in info["z_before"]:
                self.probe("populate_reset_existing_to_default")
        else:
            if ob._k(c) in info["z_before"]:
                self.probe("populate_left_existing_alone")
        return res

    def _populate_done(self, t, zsl, asl):
        info = t.info
        if self.prop != "C05":
            return
        if info["got"] != info["exp"]:
            self.V("C05", "C05.yield-sequence", "populate",
                   f"loop ended after {info['got']}, source presents {info['exp']}")
        zf = info["zf"]
        now = {ob._k(c): p for c, p in zip(zf.coords, zf.payloads)}
        k = len(info["zpre"])
        offered = set(ob._k(c) for c in info["got"])
        for c in info["got"]:
            kc = ob._k(c)
            if kc in info.get("tainted", ()):
                continue
            if kc in info["z_before"]:
                # a pre-existing element the body left entirely alone: not prescribed. One the body
                # wrote through and set back to the default must be gone (leaf level)
                p = now.get(kc)
                if c in info["written"] and isinstance(p, Payload) and p.value == zsl.default:
                    self.V("C05", "C05.leaves-nothing-behind", "populate",
                           f"the body set {info['zpre'] + (c,)} back to the default, yet z still stores an explicit default there")
                continue
            p = now.get(kc)
            if p is None:
                self.probe("populate_removed_untouched")
                continue
            if _empty(p, zsl.default):
                self.V("C05", "C05.leaves-nothing-behind", "populate",
                       f"coordinate {info['zpre'] + (c,)} was absent before the loop, was left at the default, "
                       f"yet z stores {'an empty sub-fiber' if isinstance(p, Fiber) else 'an explicit default'} there")
        # elements of z outside a: untouched
        for kc, enc in info["z_before"].items():
            if kc in offered:
                continue
            p = now.get(kc)
            cur = None if p is None else (ob.enc_fiber(p) if isinstance(p, Fiber) else ["v", ob.enc_value(p.value)])
            if cur != enc:
                self.V("C05", "C05.outside-untouched", "populate",
                       f"element of z at coordinate {kc} under {info['zpre']} is outside a and changed")

    # ---- dense reference iteration
    def start_ishaperef(self, tid, a, targets):
        s = a["slot"]
        self.need_unfrozen(s)
        sl, f = self.fiber_at(s, a["prefix"])
        level = len(a["prefix"])
        S = self.level_shape(sl, level)
        if not isinstance(S, int):
            raise Skip("int shape")
        t = self.new_task(tid, "ishaperef")
        t.slots = {s}
        t.zslot = s
        var = a.get("var", "shape")
        try:
            if var == "shape":
                lazy = f.iterShapeRef()
                exp = list(range(0, S))
            elif var == "active":
                lazy = f.iterActiveShapeRef()
                lo, hi = f.getActive()
                exp = list(range(lo, hi))
            else:
                lo, hi, st = a["lo"], a["hi"], a.get("step", 1)
                lazy = f.iterRangeShapeRef(lo, hi, st)
                exp = list(range(lo, hi, st))
            t.gen = iter(lazy)
        except Exception as e:
            t.done = True
            return {"status": f"exc:{type(e).__name__}"}
        cands = [len(exp), S]
        try:
            sh = f.getShape(all_ranks=False)
            if isinstance(sh, int):
                cands.append(sh)
            cands.append(max([c for c in f.coords if isinstance(c, int)] + [0]) + 1)
        except Exception:
            pass
        # (see start_coishaperef: a finite, generous bound - the range itself is C07's business)
        t.info = {"pre": dec_point(a["prefix"]), "exp": exp, "leaf": level == sl.depth - 1, "got": [],
                  "bound": 3 * max(cands) + 10}
        targets.add(s)
        return {}

    def step_ishaperef(self, t, action, targets):
        sl = self.slot(t.zslot)
        targets.add(t.zslot)
        try:
            c, p = next(t.gen)
        except StopIteration:
            t.done = True
            return {"end": True}
        except Exception as e:
            t.done = True
            return {"status": f"exc:{type(e).__name__}"}
        t.yields += 1
        t.info["got"].append(c)
        if t.yields > t.info["bound"]:
            t.done = True
            self.V("C01", "C01.wellformed", "ishaperef",
                   f"dense reference iteration does not terminate ({t.yields} elements offered, no shape involved exceeds {(t.info['bound'] - 10) // 3})")
        if t.info["leaf"] and isinstance(p, Payload) and action.get("act") == "assign":
            p <<= action["v"]
        elif t.info["leaf"] and isinstance(p, Payload) and action.get("act") == "acc":
            p += action["v"]
        return {"c": c}

    # ---- dense co-iteration with reference creation (two destinations at once)
    def start_coishaperef(self, tid, a, targets):
        s1, s2 = a["slot"], a["slot2"]
        same = bool(a.get("same")) and s1 == s2 and a["prefix"] == a["prefix2"]
        if s1 == s2 and not same:
            raise Skip("same tensor")
        self.need_unfrozen(s1)
        self.need_unfrozen(s2)
        sl1, f1 = self.fiber_at(s1, a["prefix"])
        sl2, f2 = self.fiber_at(s2, a["prefix2"])
        if same:
            self.probe("dense_co_iteration_of_a_fiber_with_itself")
        if sl1.free or sl2.free:
            raise Skip("free")
        l1, l2 = len(a["prefix"]), len(a["prefix2"])
        if sl1.depth - l1 != sl2.depth - l2:
            raise Skip("levels")
        S = self.level_shape(sl1, l1)
        if not isinstance(S, int) or not isinstance(self.level_shape(sl2, l2), int):
            raise Skip("int shape")
        t = self.new_task(tid, "coishaperef")
        t.slots = {s1, s2}
        t.zslot = s1
        t.aslot = s2
        var = a.get("var", "shape")
        try:
            if var == "shape":
                lazy = Fiber.coiterShapeRef([f1, f2])
                exp = list(range(0, S))
            elif var == "active":
                lazy = Fiber.coiterActiveShapeRef([f1, f2])
                lo, hi = f1.getActive()
                exp = list(range(lo, hi))
            else:
                lo, hi, st = a["lo"], a["hi"], a.get("step", 1)
                lazy = Fiber.coiterRangeShapeRef([f1, f2], lo, hi, st)
                exp = list(range(lo, hi, st))
            t.gen = iter(lazy)
        except Exception as e:
            t.done = True
            return {"status": f"exc:{type(e).__name__}"}
        # "does not terminate": a dense walk covers a finite range. The range is the library's business (C07); the
        # bound only has to be finite and generous: the largest shape anybody (the simulator's own book-keeping, the
        # ranks of both tensors, the fibers themselves) attributes to this level, tripled.
        cands = [len(exp), S, self.level_shape(sl2, l2)]
        for fb in (f1, f2):
            try:
                sh = fb.getShape(all_ranks=False)
                if isinstance(sh, int):
                    cands.append(sh)
                cands.append(max([c for c in fb.coords if isinstance(c, int)] + [0]) + 1)
            except Exception:
                pass
        t.info = {"exp": exp, "leaf": l1 == sl1.depth - 1, "got": [],
                  "bound": 3 * max(c for c in cands if isinstance(c, int)) + 10}
        targets.add(s1)
        targets.add(s2)
        return {}

    def step_coishaperef(self, t, action, targets):
        targets.add(t.zslot)
        targets.add(t.aslot)
        try:
            c, ps = next(t.gen)
        except StopIteration:
            t.done = True
            return {"end": True}
        except Exception as e:
            t.done = True
            return {"status": f"exc:{type(e).__name__}"}
        t.yields += 1
        if t.yields > t.info["bound"]:
            t.done = True
            self.V("C01", "C01.wellformed", "coishaperef",
                   f"dense co-iteration with references does not terminate ({t.yields} elements offered, no shape involved exceeds {(t.info['bound'] - 10) // 3})")
        if t.info["leaf"] and action.get("act") in ("assign", "acc"):
            try:
                p = ps[action.get("which", 0) % 2]
            except Exception:
                return {"c": c}
            if isinstance(p, Payload):
                if action["act"] == "assign":
                    p <<= action["v"]
                else:
                    p += action["v"]
        return {"c": c}

    def _close_targets(self, t, targets):
        if t.kind == "coishaperef" and t.aslot is not None:
            targets.add(t.aslot)

    # ---- read-only traversals held open while other things happen
    def start_rotrav(self, tid, a, targets):
        s = a["slot"]
        sl, f = self.fiber_at(s, a["prefix"])
        var = a["var"]
        level = len(a["prefix"])
        t = self.new_task(tid, "rotrav")
        t.slots = {s}
        t.zslot = None
        t.aslot = s
        try:
            if var == "occ":
                lazy = f.iterOccupancy()
            elif var == "shape":
                if not isinstance(self.level_shape(sl, level), int):
                    raise Skip("int shape")
                lazy = f.iterShape()
            elif var == "iter":
                lazy = iter(f)
            elif var in ("and", "or", "xor", "sub"):
                s2 = a["slot2"]
                sl2, g = self.fiber_at(s2, a["prefix2"])
                if sl2.depth - len(a["prefix2"]) != sl.depth - level:
                    raise Skip("levels")
                t.slots.add(s2)
                lazy = {"and": f.__and__, "or": f.__or__, "xor": f.__xor__, "sub": f.__sub__}[var](g)
            else:
                raise Skip("var")
            t.gen = iter(lazy)
        except Skip:
            self.tasks.pop(tid, None)
            raise
        except Exception as e:
            t.done = True
            return {"status": f"exc:{type(e).__name__}"}
        t.kind = "rotrav"
        t.info = {"var": var}
        return {}

    def step_rotrav(self, t, action, targets):
        try:
            next(t.gen)
        except StopIteration:
            t.done = True
            return {"end": True}
        except Exception as e:
            t.done = True
            return {"status": f"exc:{type(e).__name__}"}
        t.yields += 1
        if t.yields > 200:
            t.done = True
        return {}

    # ---- a plain sparse walk whose body changes the fiber ahead of the cursor
    def start_walkmut(self, tid, a, targets):
        """for c, p in f: ... while the loop is suspended the program assigns, by position, an element FURTHER ON in
        the same fiber; the walk then hands out that element: the stored payload, with its current value. (Insertions
        during a walk are not generated: the unchanged walk fixes its length when it starts and would not reach them.)"""
        s = a["slot"]
        self.need_unfrozen(s)
        sl, f = self.fiber_at(s, a["prefix"])
        if len(a["prefix"]) != sl.depth - 1 or any(not isinstance(c, int) for c in f.coords) or not f.coords:
            raise Skip("leaf fiber with int coordinates")
        S = self.level_shape(sl, sl.depth - 1)
        if not isinstance(S, int):
            raise Skip("int shape")
        fmt = f.getOwner().getFormat() if f.getOwner() is not None else f.getRankAttrs().getFormat()
        if fmt != "C":
            raise Skip("compressed rank")
        t = self.new_task(tid, "walkmut")
        t.slots = {s}
        t.zslot = s
        t.info = {"pre": dec_point(a["prefix"]), "f": f, "got": [], "S": S}
        try:
            t.gen = iter(f) if a.get("var", "iter") == "iter" else iter(f.iterOccupancy())
        except Exception as e:
            t.done = True
            return {"status": f"exc:{type(e).__name__}"}
        targets.add(s)
        return {"judged": True}

    def step_walkmut(self, t, action, targets):
        sl = self.slot(t.zslot)
        info = t.info
        f = info["f"]
        targets.add(t.zslot)
        judged = self.prop == "C03"
        try:
            c, p = next(t.gen)
        except StopIteration:
            t.done = True
            return {"judged": True, "end": True}
        except Exception as e:
            t.done = True
            return self.unexpected("C03", "walkmut", e, t.zslot)
        t.yields += 1
        point = info["pre"] + (c,)
        stored = ob.find_payload(sl.root, point)
        if judged:
            if info["got"] and not (c > info["got"][-1]):
                self.V("C03", "C03.walk-sees-the-fiber", "walkmut", f"the walk handed out {c} after {info['got']}")
            if stored is None or stored is not p:
                self.V("C03", "C03.handle-alias", "walkmut",
                       f"the walk over {info['pre']} handed out, for coordinate {c}, an object that is not the payload the "
                       f"fiber stores there (value handed out {getattr(p, 'value', p)!r}, stored "
                       f"{getattr(stored, 'value', stored)!r}): an update through it is lost")
            elif isinstance(p, Payload) and p.value != sl.model.get(point, sl.default):
                self.V("C03", "C03.read-your-writes", "walkmut",
                       f"the walk handed out {p.value!r} at {point}, the last value written there is "
                       f"{sl.model.get(point, sl.default)!r}")
        info["got"].append(c)
        act = action.get("act", "none")
        res = {"judged": True, "c": c, "act": act}
        if t.yields > 40:
            t.done = True
            return res
        idx = f.coords.index(c) if c in f.coords else None
        try:
            if act == "upd" and isinstance(p, Payload) and stored is p:
                self._write(sl, point, p, "add", 1)
            elif act == "setitem_ahead" and idx is not None and idx + 1 < len(f.coords):
                j = idx + 1 + action.get("k", 0) % (len(f.coords) - idx - 1)
                f[j] = action["v"]
                sl.model[info["pre"] + (f.coords[j],)] = action["v"]
                self.probe("walk_element_ahead_reassigned_by_position")
        except Exception as e:
            return self.unexpected("C03", "walkmut", e, t.zslot)
        return res

    def gen_walkmut(self, g):
        s = self.pick_slot(g, nonfree=False)
        if s is None:
            return None
        sl = self.slots[s]
        if sl.depth < 1:
            return None
        pre = self.existing_prefix(g, sl, sl.depth - 1)
        if pre is None:
            return None
        tid = self.next_tid
        self.next_tid += 1
        return ["start", tid, "walkmut", {"slot": s, "prefix": enc_point(pre), "var": g.choice(["iter", "occ"])}]

    # ================================================================== generation
    def generate(self, streams):
        g = streams["gen"]
        sch = streams["sched"]
        cfg = self.cfg
        # fill slots first
        for s in range(cfg["slots"]):
            if s not in self.slots:
                return ["op", "new", self.gen_new(g, s, initial=True)]
        live = [t for t in self.tasks.values() if self.steppable(t)]
        if live and sch.random() < cfg["task_bias"]:
            t = live[sch.randrange(len(live))]
            if sch.random() < cfg["cancel"]:
                return ["cancel", t.tid]
            return ["step", t.tid, self.gen_action(g, t)]
        for _ in range(12):
            kind = _weighted(g, cfg["weights"])
            fn = getattr(self, "gen_" + kind, None)
            if fn is None:
                continue
            try:
                ev = fn(g)
            except (TypeError, ValueError, IndexError):
                # mixed int / tuple / negative coordinates after rank transforms: this op does not apply here
                self.probe("gen_inapplicable:" + kind)
                ev = None
            if ev is not None:
                return ev
        return None

    # ---- generation helpers
    def rand_coord(self, g, sh, f=None, bias_existing=0.5):
        if f is not None and f.coords and g.random() < bias_existing:
            return f.coords[g.randrange(len(f.coords))]
        if f is not None and f.coords:
            # follow the kind of coordinate the fiber actually stores
            return _like(g, f.coords[0], sh)
        if isinstance(sh, (tuple, list)):
            return tuple(self.rand_coord(g, x) for x in sh)
        if sh is None:
            return g.randrange(6)
        return g.randrange(max(1, sh))

    def rand_path(self, g, sl, k, bias_existing=0.6):
        """a point prefix of length k; follows existing elements when it can"""
        pt = []
        f = sl.root
        for lvl in range(k):
            sh = sl.shape[lvl] if lvl < len(sl.shape) else None
            c = self.rand_coord(g, sh, f if isinstance(f, Fiber) else None, bias_existing)
            pt.append(c)
            if isinstance(f, Fiber) and c in f.coords:
                f = f.payloads[f.coords.index(c)]
            else:
                f = None
        return tuple(pt)

    def existing_prefix(self, g, sl, k):
        """prefix of length k along stored elements, or None"""
        f = sl.root
        pt = []
        for lvl in range(k):
            if not isinstance(f, Fiber) or not f.coords:
                return None
            i = g.randrange(len(f.coords))
            pt.append(f.coords[i])
            f = f.payloads[i]
        if not isinstance(f, Fiber):
            return None
        return tuple(pt)

    def pick_slot(self, g, unfrozen=True, nonfree=True, rank0=False):
        cands = [s for s, sl in self.slots.items()
                 if (not unfrozen or not self.frozen(s)) and (not nonfree or not sl.free)
                 and ((sl.depth == 0) == rank0)]
        if not cands:
            return None
        return cands[g.randrange(len(cands))]

    def rand_sp(self, g, f, c):
        if f is None or not f.coords or g.random() < 0.5:
            return None
        try:
            legal = [0] + [p for p in range(1, len(f.coords)) if f.coords[p] <= c]
        except TypeError:
            return None
        # always interesting: exact position and last legal position
        r = g.random()
        if r < 0.3:
            return legal[-1]
        return legal[g.randrange(len(legal))]

    def gen_spec(self, g, shape, level, explicit, density=None):
        S = shape[level]
        dens = density if density is not None else g.choice([0.2, 0.5, 0.8])
        spec = []
        for c in range(S):
            if g.random() >= dens:
                continue
            if level == len(shape) - 1:
                v = 0 if g.random() < explicit else self.nextval()
                spec.append([c, v])
            else:
                if g.random() < explicit * 0.6:
                    spec.append([c, []])
                else:
                    spec.append([c, self.gen_spec(g, shape, level + 1, explicit, dens)])
        return spec

    def gen_nest(self, g, shape, level=0, dens=0.5):
        if level == len(shape) - 1:
            return [self.nextval() if g.random() < dens else 0 for _ in range(shape[level])]
        return [self.gen_nest(g, shape, level + 1, dens) for _ in range(shape[level])]

    def gen_new(self, g, s, initial=False):
        cfg = self.cfg
        depth, shape = cfg["depth"], cfg["shape"]
        routes = ["empty", "unc", "fib", "fib", "rand", "pop"]
        if not initial or s > 0:
            routes += ["dcopy", "yaml", "setroot"]
        route = g.choice(routes)
        if not initial and self.prop in ("C02", "C01", "C10") and self.ihandles and g.random() < 0.35:
            return {"slot": s, "route": "adopt", "depth": 1, "shape": [1], "default": 0, "h": g.randrange(1 << 16)}
        if self.prop in ("C01", "C03", "C05", "C10") and s > 0 and g.random() < 0.12:
            S = g.randint(2, 6)
            a1 = {"slot": s, "route": "free1", "depth": 1, "shape": [S], "default": 0,
                  "spec": self.gen_spec(g, [S], 0, cfg["explicit"])}
            if g.random() < 0.25:
                a1["initial"] = self.nextval()
            return a1
        if self.prop in ("C05", "C10", "C02") and g.random() < 0.12:
            ent = []
            for _ in range(g.randint(0, 5)):
                ent.append([[g.randrange(x) for x in shape], self.nextval()])
            a0 = {"slot": s, "route": "noshape", "depth": depth, "shape": shape, "default": 0, "ent": ent}
            if self.prop == "C05" and g.random() < 0.5:
                a0["fmtU"] = [i for i in range(depth) if g.random() < 0.6]
            return a0
        if self.prop in ("C03", "C10", "C02") and s > 0 and g.random() < 0.08:
            return {"slot": s, "route": "rank0", "depth": 0, "shape": [], "default": 0, "initial": g.choice([0, self.nextval()])}
        a = {"slot": s, "route": route, "depth": depth, "shape": shape, "default": cfg["leaf_default"]}
        if route in ("rand", "pop", "yaml"):
            a["default"] = 0
        if route == "unc":
            a["nest"] = self.gen_nest(g, shape, 0, g.choice([0.0, 0.3, 0.7]))
            if cfg["leaf_default"] != 0:
                a["default"] = 0
        elif route == "fib":
            a["spec"] = self.gen_spec(g, shape, 0, cfg["explicit"])
            if g.random() < 0.15:
                a["initial"] = self.nextval()
        elif route == "rand":
            a["density"] = [g.choice([0.3, 0.6, 1.0]) for _ in shape]
            a["density"][0:len(shape) - 1] = [1.0] * (len(shape) - 1) if g.random() < 0.5 else a["density"][0:len(shape) - 1]
            a["seed"] = g.randrange(1000)
        elif route == "pop":
            a["initial"] = g.choice([1, 2, 0])
        elif route in ("dcopy", "yaml", "setroot"):
            others = [x for x in self.slots if x != s and not self.slots[x].free
                      and (self.slots[x].depth > 0 or route != "setroot")]
            if not others:
                a["route"] = "fib"
                a["spec"] = self.gen_spec(g, shape, 0, cfg["explicit"])
            else:
                a["src"] = g.choice(others)
                src = self.slots[a["src"]]
                a["depth"], a["shape"] = src.depth, list(src.shape)
                if route == "setroot":
                    k = g.randrange(src.depth)
                    pre = self.existing_prefix(g, src, k)
                    if pre is None:
                        k, pre = 0, ()
                    a["level"], a["prefix"] = k, enc_point(pre)
                    a["depth"], a["shape"] = src.depth - k, list(src.shape[k:])
        if self.prop == "C05" and g.random() < 0.25 and a["route"] in ("fib", "unc", "empty"):
            a["fmtU"] = [i for i in range(a["depth"]) if g.random() < 0.5]
        if self.prop in ("C01", "C02", "C03") and g.random() < 0.12 and a["route"] in ("fib", "unc", "empty"):
            # ranks declared uncompressed although the fibers are stored sparsely
            a["fmtU"] = [i for i in range(a["depth"]) if g.random() < 0.6]
        return a

    def gen_new_ev(self, g):
        s = self.pick_slot(g)
        if s is None:
            return None
        return ["op", "new", self.gen_new(g, s)]
    gen_new_op = gen_new_ev

    def _leaf_action(self, g):
        r = g.random()
        if r < 0.25:
            return "set", self.nextval()
        if r < 0.35:
            return "setbox", self.nextval()
        if r < 0.52:
            return "add", g.choice([1, 2, 3, self.nextval()])
        if r < 0.6:
            return "addbox", g.choice([1, 2, 3])
        if r < 0.64:
            return "mul", g.choice([0, 2, 3])
        if r < 0.66:
            return "mulbox", g.choice([2, 3])
        if r < 0.69:
            return "sub", g.choice([1, 2, self.nextval()])
        if r < 0.72:
            return "subbox", g.choice([1, 2, self.nextval()])
        if r < 0.73:
            return "attr", self.nextval()
        if r < 0.75:
            return "attrbox", self.nextval()
        if r < 0.8:
            return "set", "DEFAULT"
        return "none", None

    def gen_ref(self, g):
        s = self.pick_slot(g, nonfree=False)
        walking = sorted({t.zslot for t in self.tasks.values() if not t.done and t.kind == "ishaperef"
                          and not any((not u.done) and u.kind != "ishaperef" and t.zslot in u.slots for u in self.tasks.values())})
        during = False
        if self.prop in ("C01", "C02") and walking and g.random() < 0.3:
            s, during = g.choice(walking), True
        if s is None:
            return None
        sl = self.slots[s]
        k = g.choice([0] * 3 + list(range(sl.depth)))
        if k:
            pre = self.existing_prefix(g, sl, k)
            if pre is None:
                k, pre = 0, ()
        else:
            pre = ()
        full = self.rand_path(g, sl, sl.depth)
        point = pre + full[k:]
        rest = point[k:]
        act, v = self._leaf_action(g)
        if v == "DEFAULT":
            v = sl.default
        a = {"slot": s, "prefix": enc_point(pre), "rest": enc_point(rest), "act": act, "v": v,
             "via": g.choice(["t", "root"])}
        if during:
            # preferably right into the fiber being walked, below where the walk stands
            tk = [t for t in self.tasks.values() if not t.done and t.kind == "ishaperef" and t.zslot == s]
            if tk and g.random() < 0.7:
                t0 = tk[0]
                wpre = t0.info.get("pre", ())
                wf = ob.find_fiber(sl.root, wpre)
                got = [c for c in t0.info.get("got", []) if isinstance(c, int)]
                if wf is not None and got and len(wpre) < sl.depth:
                    below = [c for c in range(0, max(got)) if c not in wf.coords]
                    if below:
                        full2 = self.rand_path(g, sl, sl.depth)
                        pt = tuple(wpre) + (g.choice(below),) + tuple(full2[len(wpre) + 1:])
                        a["prefix"], a["rest"] = enc_point(()), enc_point(pt)
                        a.pop("sp", None)
            a["during_walk"] = True
            a["act"] = g.choice(["set", "add", "none"])
            if a["act"] != "none":
                a["v"] = self.nextval()
            return ["op", "ref", a]
        if self.prop in ("C03", "C01", "C02") and g.random() < 0.05 and rest and isinstance(rest[-1], int):
            return ["op", "ref", dict(a, rest=enc_point(rest + (0,)), toolong=True, act="none")]
        if g.random() < 0.4:
            a["keep"] = True
        if len(rest) == 1:
            f = ob.find_fiber(sl.root, pre)
            sp = self.rand_sp(g, f, rest[0])
            if sp is not None:
                a["sp"] = sp
        return ["op", "ref", a]

    def gen_hw(self, g):
        if not any(h["alive"] for h in self.handles):
            return None
        act, v = self._leaf_action(g)
        if act == "none":
            act, v = "add", 1
        if v == "DEFAULT":
            v = 0
        return ["op", "hw", {"h": g.randrange(1 << 16), "act": act, "v": v}]

    def gen_posref(self, g):
        s = self.pick_slot(g, nonfree=False)
        if s is None:
            return None
        sl = self.slots[s]
        k = g.randrange(sl.depth)
        pre = self.existing_prefix(g, sl, k)
        if pre is None:
            return None
        f = ob.find_fiber(sl.root, pre)
        c = self.rand_coord(g, sl.shape[k], f, 0.4)
        a = {"slot": s, "prefix": enc_point(pre), "coord": ob.enc_coord(c) if not isinstance(c, tuple) else list(c)}
        sp = self.rand_sp(g, f, c)
        if sp is not None:
            a["sp"] = sp
        return ["op", "posref", a]

    def gen_get(self, g):
        s = self.pick_slot(g, unfrozen=False, nonfree=False)
        if s is None:
            return None
        sl = self.slots[s]
        k = g.choice([0] * 3 + list(range(sl.depth)))
        pre = self.existing_prefix(g, sl, k) if k else ()
        if pre is None:
            k, pre = 0, ()
        n = g.choice([sl.depth] * 3 + list(range(k + 1, sl.depth + 1)))
        n = max(n, k + 1)
        point = pre + self.rand_path(g, sl, n)[k:]
        rest = point[k:]
        a = {"slot": s, "prefix": enc_point(pre), "rest": enc_point(rest), "via": g.choice(["t", "root"])}
        if g.random() < 0.3:
            a["noalloc"] = True
            if g.random() < 0.6:
                a["dflt"] = g.choice([0, -7, 55])
        if len(rest) == 1:
            f = ob.find_fiber(sl.root, pre)
            sp = self.rand_sp(g, f, rest[0])
            if sp is not None:
                a["sp"] = sp
        if g.random() < 0.3:
            a["scribble"] = True
        return ["op", "get", a]

    def gen_getpos(self, g):
        s = self.pick_slot(g, unfrozen=False, nonfree=False)
        if s is None:
            return None
        sl = self.slots[s]
        k = g.randrange(sl.depth)
        pre = self.existing_prefix(g, sl, k)
        if pre is None:
            return None
        f = ob.find_fiber(sl.root, pre)
        c = self.rand_coord(g, sl.shape[k], f, 0.6)
        a = {"slot": s, "prefix": enc_point(pre), "coord": list(c) if isinstance(c, tuple) else c}
        sp = self.rand_sp(g, f, c)
        if sp is not None:
            a["sp"] = sp
        return ["op", "getpos", a]

    def _leaf_fiber(self, g, need_leaf=True):
        s = self.pick_slot(g, nonfree=False)
        if s is None:
            return None
        sl = self.slots[s]
        k = sl.depth - 1 if need_leaf else g.randrange(sl.depth)
        pre = self.existing_prefix(g, sl, k)
        if pre is None:
            return None
        return s, sl, pre, ob.find_fiber(sl.root, pre), k

    def gen_append(self, g):
        r = self._leaf_fiber(g)
        if r is None:
            return None
        s, sl, pre, f, k = r
        S = sl.shape[k]
        if not isinstance(S, int):
            return None
        mx = max(f.coords) if f.coords else -1
        if g.random() < self.cfg["reject"] and f.coords:
            c = g.randrange(0, mx + 1)            # will be rejected
        else:
            c = mx + 1 + g.randrange(2)
        return ["op", "append", {"slot": s, "prefix": enc_point(pre), "coord": c,
                                 "v": g.choice([self.nextval(), self.nextval(), 0])}]

    def gen_extend(self, g):
        r = self._leaf_fiber(g)
        if r is None:
            return None
        s, sl, pre, f, k = r
        if not isinstance(sl.shape[k], int):
            return None
        mx = max(f.coords) if f.coords else -1
        n = g.randrange(0, 4)
        if g.random() < self.cfg["reject"] and f.coords:
            start = g.randrange(0, mx + 1)
        else:
            start = mx + 1 + g.randrange(2)
        coords = []
        c = start
        for _ in range(n):
            coords.append(c)
            c += 1 + g.randrange(2)
        vals = [g.choice([self.nextval(), 0]) if g.random() < 0.2 else self.nextval() for _ in coords]
        return ["op", "extend", {"slot": s, "prefix": enc_point(pre), "coords": coords, "vals": vals}]

    def gen_setitem(self, g):
        r = self._leaf_fiber(g, need_leaf=g.random() < 0.75)
        if r is None:
            return None
        s, sl, pre, f, k = r
        if not f.coords or not isinstance(sl.shape[k], int):
            return None
        n = len(f.coords)
        rj = g.random() < self.cfg["reject"]
        if rj and g.random() < 0.2:
            pos = g.choice([n, n + 1, -n - 1])
        else:
            pos = g.randrange(-n, n) if g.random() < 0.3 else g.randrange(n)
        a = {"slot": s, "prefix": enc_point(pre), "pos": pos, "via": g.choice(["t", "f"])}
        mode = g.choice(["p", "c", "cp"])
        if mode in ("c", "cp"):
            p = pos % n if -n <= pos < n else 0
            lo = f.coords[p - 1] + 1 if p > 0 else 0
            hi = f.coords[p + 1] - 1 if p + 1 < n else max(f.coords[p], sl.shape[k] - 1) + 1
            if rj:
                # violate the left or the right neighbour
                if p > 0 and (p + 1 >= n or g.random() < 0.5):
                    a["coord"] = g.randrange(0, f.coords[p - 1] + 1)
                    self_probe = "left"
                elif p + 1 < n:
                    a["coord"] = f.coords[p + 1] + g.randrange(0, 2)
                else:
                    a["coord"] = f.coords[p]
            else:
                if lo > hi:
                    a["coord"] = f.coords[p]
                else:
                    a["coord"] = g.randrange(lo, hi + 1)
        if mode in ("p", "cp"):
            a["v"] = g.choice([self.nextval(), self.nextval(), 0])
        if "coord" not in a and "v" not in a:
            a["v"] = self.nextval()
        return ["op", "setitem", a]

    def _rand_free_fiber_args(self, g, S):
        coords = sorted(g.sample(range(S), g.randrange(0, S + 1))) if S > 0 else []
        vals = [0 if g.random() < 0.15 else self.nextval() for _ in coords]
        return coords, vals

    def gen_fiadd(self, g):
        r = self._leaf_fiber(g)
        if r is None:
            return None
        s, sl, pre, f, k = r
        if not isinstance(sl.shape[k], int):
            return None
        a = {"slot": s, "prefix": enc_point(pre)}
        if g.random() < 0.4:
            a["scalar"] = g.choice([1, 2, 0])
        else:
            a["coords"], a["vals"] = self._rand_free_fiber_args(g, sl.shape[k])
        return ["op", "fiadd", a]

    def gen_fimul(self, g):
        r = self._leaf_fiber(g)
        if r is None:
            return None
        s, sl, pre, f, k = r
        if not isinstance(sl.shape[k], int):
            return None
        a = {"slot": s, "prefix": enc_point(pre)}
        if g.random() < 0.5:
            a["scalar"] = g.choice([2, 3, 0, 1])
        else:
            a["coords"], a["vals"] = self._rand_free_fiber_args(g, sl.shape[k])
        return ["op", "fimul", a]

    def gen_filshift(self, g):
        if len(self.slots) < 2:
            return None
        s = self.pick_slot(g)
        if s is None:
            return None
        others = [x for x in self.slots if x != s and not self.slots[x].free]
        if not others:
            return None
        o = g.choice(others)
        sl, osl = self.slots[s], self.slots[o]
        for _ in range(6):
            k = g.randrange(sl.depth)
            ko = osl.depth - (sl.depth - k)
            if ko < 0:
                continue
            pre = self.existing_prefix(g, sl, k)
            opre = self.existing_prefix(g, osl, ko)
            if pre is None or opre is None:
                continue
            ev = {"slot": s, "prefix": enc_point(pre), "src": o, "src_prefix": enc_point(opre)}
            if k == sl.depth - 1 and g.random() < 0.25:
                n = g.randint(2, 5)
                cs = g.sample(range(7), n)
                ev["usrc"] = {"kind": g.choice(["unordered", "collapse", "permute"]), "coords": cs,
                              "vals": [self.nextval() for _ in range(n)]}
            return ["op", "filshift", ev]
        return None

    def gen_updc(self, g):
        r = self._leaf_fiber(g, need_leaf=g.random() < 0.5)
        if r is None:
            return None
        s, sl, pre, f, k = r
        if not isinstance(sl.shape[k], int) or not f.coords:
            return None
        return ["op", "updc", {"slot": s, "prefix": enc_point(pre), "fn": g.choice(["rev", "rot", "rot", "id"]),
                               "k": g.randrange(1, 4)}]

    def gen_updp(self, g):
        r = self._leaf_fiber(g)
        if r is None:
            return None
        s, sl, pre, f, k = r
        return ["op", "updp", {"slot": s, "prefix": enc_point(pre), "fn": g.choice(["inc", "inc", "same", "zero"]),
                               "k": g.randrange(1, 4)}]

    def gen_updbelow(self, g):
        s = self.pick_slot(g)
        if s is None:
            return None
        sl = self.slots[s]
        if sl.depth < 2:
            return None
        k = g.randrange(sl.depth - 1)
        pre = self.existing_prefix(g, sl, k)
        if pre is None:
            return None
        d = g.randrange(1, sl.depth - k)
        what = g.choice(["coords", "payloads"])
        if what == "payloads":
            d = sl.depth - 1 - k
        return ["op", "updbelow", {"slot": s, "prefix": enc_point(pre), "depth": d, "what": what, "k": g.randrange(1, 4)}]

    def gen_clear(self, g):
        r = self._leaf_fiber(g, need_leaf=g.random() < 0.5)
        if r is None:
            return None
        s, sl, pre, f, k = r
        return ["op", "clear", {"slot": s, "prefix": enc_point(pre)}]

    def gen_populate(self, g):
        if len(self.slots) < 2:
            return None
        zs = self.pick_slot(g, nonfree=False)
        if zs is None:
            return None
        others = [x for x in self.slots if x != zs and not self.frozen(x) and self.slots[x].depth > 0]
        if not others:
            return None
        as_ = g.choice(others)
        zsl, asl = self.slots[zs], self.slots[as_]
        for _ in range(6):
            k = g.choice([0, 0] + list(range(zsl.depth)))
            ka = asl.depth - (zsl.depth - k)
            if ka < 0:
                continue
            zpre = self.existing_prefix(g, zsl, k)
            apre = self.existing_prefix(g, asl, ka)
            if zpre is None or apre is None:
                continue
            tid = self.next_tid
            self.next_tid += 1
            a = {"z": zs, "a": as_, "zpre": enc_point(zpre), "apre": enc_point(apre)}
            if self.prop == "C05" and getattr(self, "_pop_objects", None) and g.random() < 0.5:
                # prefer a pair of fibers the program has populated before, and walk that same object again
                zfs = {id(x): pre for pre, x in ((pp, ob.find_fiber(zsl.root, pp)) for pp in [zpre]) if x is not None}
                for (zi, ai), (zf0, af0, _) in list(self._pop_objects.items()):
                    if zi in zfs and ob.find_fiber(asl.root, apre) is af0:
                        a["reuse"] = True
                        break
            if self.prop == "C05" and "reuse" not in a and g.random() < 0.3:
                # the optional search shortcut: everything of z before this position is smaller than a's first coordinate
                zf, af = ob.find_fiber(zsl.root, zpre), ob.find_fiber(asl.root, apre)
                if zf is not None and af is not None and af.coords and all(isinstance(c, int) for c in list(zf.coords) + list(af.coords)):
                    import bisect as _bs
                    hi = _bs.bisect_left(list(zf.coords), af.coords[0])
                    if hi >= 1:
                        a["sp"] = g.randint(1, hi)
            return ["start", tid, "populate", a]
        return None

    def gen_ishaperef(self, g):
        s = self.pick_slot(g, nonfree=False)
        if s is None:
            return None
        sl = self.slots[s]
        k = g.choice([sl.depth - 1] * 2 + list(range(sl.depth)))
        pre = self.existing_prefix(g, sl, k)
        if pre is None or not isinstance(sl.shape[k], int):
            return None
        a = {"slot": s, "prefix": enc_point(pre), "var": g.choice(["shape", "active", "range"])}
        if a["var"] == "range":
            S = sl.shape[k]
            a["lo"] = g.randrange(0, S)
            a["hi"] = g.randrange(a["lo"], S + 1)
            a["step"] = g.choice([1, 1, 2])
            if g.random() < 0.3:
                # a descending walk
                a["lo"], a["hi"], a["step"] = a["hi"] - 1, a["lo"] - 1, -a["step"]
        tid = self.next_tid
        self.next_tid += 1
        return ["start", tid, "ishaperef", a]

    def gen_coishaperef(self, g):
        if len(self.slots) < 2:
            return None
        s = self.pick_slot(g)
        if s is None:
            return None
        others = [x for x in self.slots if x != s and not self.frozen(x) and not self.slots[x].free
                  and self.slots[x].depth > 0]
        if not others:
            return None
        o = g.choice(others)
        sl, osl = self.slots[s], self.slots[o]
        for _ in range(5):
            k = g.choice([sl.depth - 1] * 2 + list(range(sl.depth)))
            ko = osl.depth - (sl.depth - k)
            if ko < 0:
                continue
            pre = self.existing_prefix(g, sl, k)
            opre = self.existing_prefix(g, osl, ko)
            if pre is None or opre is None or not isinstance(sl.shape[k], int) or not isinstance(osl.shape[ko], int):
                continue
            a = {"slot": s, "prefix": enc_point(pre), "slot2": o, "prefix2": enc_point(opre),
                 "var": g.choice(["shape", "active", "range"])}
            if self.prop in ("C01", "C02") and g.random() < 0.15:
                a.update({"slot2": s, "prefix2": enc_point(pre), "same": True})      # the same fiber passed twice
            if a["var"] == "range":
                S = sl.shape[k]
                a["lo"] = g.randrange(0, S)
                a["hi"] = g.randrange(a["lo"], S + 1)
                a["step"] = g.choice([1, 1, 2])
            tid = self.next_tid
            self.next_tid += 1
            return ["start", tid, "coishaperef", a]
        return None

    def gen_rotrav(self, g):
        s = self.pick_slot(g, unfrozen=False)
        if s is None:
            return None
        sl = self.slots[s]
        k = g.randrange(sl.depth)
        pre = self.existing_prefix(g, sl, k)
        if pre is None:
            return None
        var = g.choice(["occ", "shape", "iter", "and", "or", "xor", "sub"])
        a = {"slot": s, "prefix": enc_point(pre), "var": var}
        if var in ("and", "or", "xor", "sub"):
            o = self.pick_slot(g, unfrozen=False)
            osl = self.slots[o]
            ko = osl.depth - (sl.depth - k)
            if ko < 0:
                return None
            opre = self.existing_prefix(g, osl, ko)
            if opre is None:
                return None
            a["slot2"], a["prefix2"] = o, enc_point(opre)
        tid = self.next_tid
        self.next_tid += 1
        return ["start", tid, "rotrav", a]

    def gen_action(self, g, t):
        if t.kind == "populate":
            if t.info.get("interior"):
                # the decision to descend is its own event (a start with parent=...)
                if g.random() < 0.15:
                    return {"act": "rowacc"}       # z_k += a_k: accumulate the whole offered row
                return {"act": "interior"}
            r = g.random()
            if r < 0.3:
                return {"act": "assign", "v": self.nextval()}
            if r < 0.5:
                return {"act": "acc", "v": g.choice([1, 2, self.nextval()])}
            if r < 0.6:
                return {"act": "accsrc"}
            if r < 0.72:
                return {"act": "zero"}
            if r < 0.80 and self.prop == "C05":
                # the body leaves the offered reference alone and inserts at another coordinate of the same row
                sh = self.slots[t.zslot].shape
                k = len(t.info["zpre"])
                if k < len(sh) and isinstance(sh[k], int) and sh[k] > 1:
                    return {"act": "elsewhere", "c2": g.randrange(sh[k]), "v": self.nextval()}
            return {"act": "leave"}
        if t.kind == "walkmut":
            r = g.random()
            if r < 0.45:
                return {"act": "setitem_ahead", "k": g.randrange(8), "v": self.nextval()}
            if r < 0.8:
                return {"act": "upd"}
            return {"act": "none"}
        if t.kind == "coishaperef":
            r = g.random()
            if r < 0.35:
                return {"act": "assign", "v": self.nextval(), "which": g.randrange(2)}
            if r < 0.5:
                return {"act": "acc", "v": 1, "which": g.randrange(2)}
            return {"act": "leave"}
        if t.kind == "ishaperef":
            r = g.random()
            if r < 0.35:
                return {"act": "assign", "v": self.nextval()}
            if r < 0.5:
                return {"act": "acc", "v": 1}
            return {"act": "leave"}
        return {}

    def gen_descend(self, g):
        cands = [t for t in self.tasks.values()
                 if not t.done and t.kind == "populate" and t.info.get("interior") and t.cur is not None
                 and t.child is None and not t.info.get("descended")]
        if not cands:
            return None
        t = cands[g.randrange(len(cands))]
        tid = self.next_tid
        self.next_tid += 1
        return ["start", tid, "populate", {"parent": t.tid}]


def _like(g, c, sh):
    if isinstance(c, tuple):
        shs = sh if isinstance(sh, (tuple, list)) and len(sh) == len(c) else [4] * len(c)
        return tuple(_like(g, x, s) for x, s in zip(c, shs))
    if isinstance(sh, int) and sh > 0:
        return g.randrange(sh)
    return g.randrange(6)


def _free_depth(f):
    d = 1
    while f.payloads and isinstance(f.payloads[0], Fiber):
        f = f.payloads[0]
        d += 1
    return d


def _empty(p, default):
    if isinstance(p, Fiber):
        return all(_empty(q, default) for q in p.payloads)
    v = p.value if isinstance(p, Payload) else p
    return v == default


def _weighted(g, w):
    tot = sum(w.values())
    if tot <= 0:
        return "get"
    r = g.random() * tot
    for k, x in w.items():
        r -= x
        if r <= 0:
            return k
    return next(iter(w))


ob._k = lambda c: repr(c)

ALLMUT = {"ref": 6, "hw": 3, "posref": 2, "append": 2, "extend": 1, "setitem": 3, "iol": 0.8, "adopt": 1.0, "fiadd": 1, "fimul": 1,
          "filshift": 1.5, "updc": 1.5, "updp": 1.5, "updbelow": 1, "clear": 1, "reroot": 0.7, "orphan": 1.2, "populate": 3, "descend": 6, "ishaperef": 2, "coishaperef": 1,
          "new_op": 0.5}
BASE_WEIGHTS = {
    "C01": dict(ALLMUT, get=1, rotrav=0.5, vr=1.5, ro=0.5),
    "C02": dict(ALLMUT, get=2, getpos=0.5, rotrav=1.5, vr=2.5, ro=3),
    "C03": {"r0": 2, "ref": 8, "hw": 5, "posref": 3, "get": 8, "getpos": 3, "append": 0.5, "setitem": 0.7, "clear": 0.3, "walkmut": 1.2,
            "populate": 0.7, "descend": 2, "updp": 0.3, "fimul": 0.3, "filshift": 0.3, "new_op": 0.3},
    "C05": {"vr": 1.0, "populate": 8, "descend": 10, "ref": 3, "hw": 1, "get": 3, "setitem": 1, "clear": 0.3, "filshift": 0.5,
            "fimul": 0.5, "fiadd": 0.7, "rotrav": 0.5, "new_op": 0.7, "regrow": 0.6, "setdef": 0.5},
    "C10": dict(ALLMUT, get=2, getpos=1, rotrav=2, vr=10, ro=10, render=0.35, r0=0.5),
}
FOCUS = {
    "C01": {"ref", "setitem", "append", "populate", "descend"},
    "C02": {"ref", "populate", "descend", "clear", "filshift"},
    "C03": {"ref", "hw", "get", "getpos", "posref"},
    "C05": {"populate", "descend"},
    "C10": {"ref", "vr", "ro"},
}


from . import treesim_ops  # noqa: E402
treesim_ops.install(TreeSim)
