"""Value-returning and read-only operation families of TreeSim (C10, and state sources for C01/C02).

Attached to TreeSim as methods (see bottom of treesim.py).
"""
import contextlib
import copy
import io
import os

from fibertree import Fiber, Payload, Tensor

from . import observe as ob
from .core import Violation
from .treesim import Skip, Slot, dec_point, dec_coord, enc_point, IDS


def _result_shape(t, fallback):
    try:
        sh = t.getShape()
    except Exception:
        sh = None
    out = []
    n = len(t.ranks)
    for i in range(n):
        x = sh[i] if sh and i < len(sh) else None
        if not x:
            x = fallback
        out.append(list(x) if isinstance(x, tuple) else x)
    return out


def _flat_ok(shape_entry):
    return isinstance(shape_entry, int)


def _dense_volume(sl, f, level):
    """number of cells a dense materialisation of the sub-tree at f would have (raw walk: declared shape or largest
    coordinate + 1 per level); transforms such as linear flattening can make this millions from a 7x8x8 start"""
    vol = 1
    for i, lv in enumerate(ob.levels(f)):
        ext = max([c + 1 for fb in lv for c in fb.coords if isinstance(c, int)], default=1)
        sh = sl.shape[level + i] if level + i < len(sl.shape) else 0
        vol *= max(ext, sh if isinstance(sh, int) else 0, 1)
    return vol


# ---------------------------------------------------------------------------- value-returning
def op_vr(self, a, targets):
    """result = <operation>(slot src); result joins the world in slot dst"""
    src = self.slot(a["src"])
    dst = a["dst"]
    if dst == a["src"]:
        raise Skip("dst == src")
    self.need_unfrozen(dst)
    if src.free:
        raise Skip("free")
    kind = a["kind"]
    t = src.t
    d = a.get("depth", 0)
    nr = len(t.ranks)
    vtwin = None
    if a.get("twin") and all(_flat_ok(x) for x in src.shape):
        try:
            vtwin = copy.deepcopy(t)
        except Exception:
            vtwin = None
    if nr >= 4 and (kind.startswith("split") or kind in ("truediv", "floordiv", "unflatten")):
        raise Skip("deep enough")
    try:
        if kind == "splitUniform":
            if d >= nr or not _flat_ok(src.shape[d]):
                raise Skip("depth")
            kw = {}
            for k in ("relativeCoords", "pre_halo", "post_halo"):
                if k in a:
                    kw[k] = a[k]
            r = t.splitUniform(a["step"], depth=d, **kw)
        elif kind == "splitNonUniform":
            if d >= nr or not _flat_ok(src.shape[d]):
                raise Skip("depth")
            r = t.splitNonUniform(list(a["splits"]), depth=d)
        elif kind == "splitEqual":
            if d >= nr or not _flat_ok(src.shape[d]):
                raise Skip("depth")
            r = t.splitEqual(a["step"], depth=d)
        elif kind == "splitUnEqual":
            if d >= nr or not _flat_ok(src.shape[d]):
                raise Skip("depth")
            r = t.splitUnEqual(list(a["sizes"]), depth=d)
        elif kind == "truediv":
            if not _flat_ok(src.shape[0]):
                raise Skip("shape")
            r = t / a["n"]
        elif kind == "floordiv":
            if not _flat_ok(src.shape[0]):
                raise Skip("shape")
            r = t // a["n"]
        elif kind == "swizzle":
            ids = t.getRankIds()
            perm = a["perm"]
            if sorted(perm) != list(range(len(ids))):
                raise Skip("perm")
            r = t.swizzleRanks([ids[i] for i in perm])
        elif kind == "swap":
            if d + 1 >= nr:
                raise Skip("depth")
            r = t.swapRanks(depth=d)
        elif kind == "flatten":
            lv = a.get("levels", 1)
            if d + lv >= nr:
                raise Skip("depth")
            r = t.flattenRanks(depth=d, levels=lv, coord_style=a.get("style", "tuple"))
        elif kind == "unflatten":
            if d >= nr or not isinstance(src.shape[d], (list, tuple)):
                raise Skip("not flattened")
            lv = a.get("levels", 1)
            if len(src.shape[d]) < lv + 1:
                raise Skip("levels")
            r = t.unflattenRanks(depth=d, levels=lv)
        elif kind == "merge":
            lv = a.get("levels", 1)
            if d + lv >= nr:
                raise Skip("depth")
            r = t.mergeRanks(depth=d, levels=lv, coord_style=a.get("style", "absolute"))
        elif kind == "updateCoords":
            if d >= nr or not _flat_ok(src.shape[d]):
                raise Skip("depth")
            S = src.shape[d]
            r = t.updateCoords(lambda i, c, p: S - 1 - c, depth=d)
        elif kind == "updatePayloads":
            if nr < 1:
                raise Skip("depth")
            k = a.get("k", 1)
            r = t.updatePayloads(lambda i, c, p: Payload(Payload.get(p) + k), depth=nr - 1)
        elif kind == "deepcopy":
            r = copy.deepcopy(t)
        elif kind == "fibercopy":
            pf = ob.find_fiber(src.root, dec_point(a.get("prefix", [])))
            if pf is None:
                raise Skip("prefix")
            f = pf.copy(preserve_owner=bool(a.get("preserve", True)))
            # C10: the copy shares nothing mutable with any tensor of the world - owners included
            mine = ob.identity_set(f)
            for s2, sl2 in self.slots.items():
                common = set(mine) & set(ob.identity_set(sl2.t))
                if common:
                    kinds = sorted({mine[x] for x in common})
                    self.V("C10", "C10.no-alias", "vr",
                           f"Fiber.copy(preserve_owner={bool(a.get('preserve', True))}) of a fiber of slot {a['src']} "
                           f"shares {len(common)} mutable objects of kind {kinds} with slot {s2}")
            self.probe("fcopy_checked")
            if f.getDepth() != len(t.ranks):
                raise Skip("interior copy checked")
            r = Tensor.fromFiber(copy.deepcopy(t.getRankIds()), f, shape=None)
        elif kind in ("fadd", "fmul"):
            # elementwise + / * of two leaf fibers (or fiber and scalar); the result is a free fiber
            pre = dec_point(a["prefix"])
            f = ob.find_fiber(src.root, pre)
            if f is None or len(pre) != src.depth - 1:
                raise Skip("leaf fiber")
            if "scalar" in a:
                if kind == "fadd" and not _flat_ok(src.shape[len(pre)]):
                    raise Skip("shape")
                other = a["scalar"]
            else:
                osl = self.slot(a["other"])
                opre = dec_point(a["other_prefix"])
                other = ob.find_fiber(osl.root, opre)
                if other is None or osl.free or len(opre) != osl.depth - 1:
                    raise Skip("other leaf fiber")
            rf = (f + other) if kind == "fadd" else (f * other)
            r = Tensor.fromFiber([str(t.getRankIds()[-1])], rf, shape=None)
        else:
            raise Skip("kind")
    except Skip:
        raise
    except Exception as e:
        self.probe(f"vr_raised:{kind}:{type(e).__name__}")
        return {"status": f"exc:{type(e).__name__}", "msg": str(e)[:80]}
    if not isinstance(r, Tensor):
        return {"status": "exc:notTensor"}
    root = ob.root_of(r)
    errs = ob.wellformed(root, len(r.ranks)) if isinstance(root, Fiber) else []
    if errs:
        # whether a transform computes a well-formed result is C08/C09's business (not applicable
        # to this technique); a malformed result is not admitted as a state of the world
        self.probe("vr_result_malformed:" + kind)
        return {"status": "malformed-result"}
    shape = _result_shape(r, 6)

    def _big(x):
        return any(_big(y) for y in x) if isinstance(x, (list, tuple)) else (isinstance(x, int) and x > 600)
    if _big(shape):
        # repeated linear flattening multiplies shapes (7x8x8 -> 448 -> 3072 ...); every dense walk of such a tensor
        # takes seconds and a run of 90 events no longer fits its watchdog. Such results do not join the world.
        self.probe("vr_result_too_large:" + kind)
        return {"status": "result-too-large"}
    try:
        default = Payload.get(r.getDefault())
    except Exception:
        default = src.default
    self.slots[dst] = Slot(r, shape, default, "vr_" + kind)
    for h in self.handles:
        if h["slot"] == dst:
            h["alive"] = False
    self.snaps.pop(dst, None)
    targets.add(dst)
    self.probe("vr_ok:" + kind)
    if vtwin is not None:
        _twin_differential(self, src, vtwin, (), kind, dict(a, slot=a["src"]), family="vr")
    return {"kind": kind, "depth_out": len(r.ranks)}


# ---------------------------------------------------------------------------- read-only
def _consume(it, cap=5000):
    n = 0
    for _ in it:
        n += 1
        if n > cap:
            break
    return n


def op_ro(self, a, targets):
    """a read-only operation; nothing is targeted, every tensor must be unchanged afterwards"""
    sl = self.slot(a["slot"])
    kind = a["kind"]
    t = sl.t
    pre = dec_point(a.get("prefix", []))
    f = ob.find_fiber(sl.root, pre) if not sl.free else sl.t
    if f is None:
        raise Skip("prefix")
    level = len(pre)
    other = None
    if "slot2" in a:
        osl = self.slot(a["slot2"])
        other = ob.find_fiber(osl.root, dec_point(a.get("prefix2", [])))
        if other is None:
            raise Skip("prefix2")
        if (osl.depth - len(a.get("prefix2", []))) != (sl.depth - level):
            raise Skip("levels")
    info = {}
    twin = None
    if a.get("twin") and not sl.free and all(_flat_ok(x) for x in sl.shape):
        try:
            twin = copy.deepcopy(sl.t)
        except Exception:
            twin = None
    try:
        with contextlib.redirect_stdout(io.StringIO()):
            if kind == "iter":
                info["n"] = _consume(iter(f))
            elif kind == "occ":
                info["n"] = _consume(f.iterOccupancy())
            elif kind == "active":
                info["n"] = _consume(f.iterActive())
            elif kind == "shape":
                if not _flat_ok(sl.shape[level]):
                    raise Skip("shape")
                info["n"] = _consume(f.iterShape())
            elif kind == "activeshape":
                if not _flat_ok(sl.shape[level]):
                    raise Skip("shape")
                info["n"] = _consume(f.iterActiveShape())
            elif kind == "range":
                info["n"] = _consume(f.iterRange(a["lo"], a["hi"]))
            elif kind == "rangeshape":
                if not _flat_ok(sl.shape[level]):
                    raise Skip("shape")
                info["n"] = _consume(f.iterRangeShape(a["lo"], a["hi"], a.get("step", 1)))
            elif kind in ("and", "or", "xor", "sub"):
                if other is None:
                    raise Skip("other")
                lazy = {"and": f.__and__, "or": f.__or__, "xor": f.__xor__, "sub": f.__sub__}[kind](other)
                info["n"] = _consume(lazy)
            elif kind in ("intersection", "intersection_lf", "union"):
                if other is None:
                    raise Skip("other")
                if kind == "intersection":
                    lazy = Fiber.intersection(f, other, f) if a.get("three") else Fiber.intersection(f, other)
                elif kind == "intersection_lf":
                    lazy = Fiber.intersection(f, other, style="leader-follower")
                else:
                    lazy = Fiber.union(f, other, f) if a.get("three") else Fiber.union(f, other)
                info["n"] = _consume(lazy)
            elif kind == "coitershape":
                if other is None or not _flat_ok(sl.shape[level]):
                    raise Skip("other")
                info["n"] = _consume(Fiber.coiterShape([f, other]))
            elif kind == "eq":
                if other is None:
                    raise Skip("other")
                info["r"] = bool(f == other)
            elif kind == "teq":
                osl = self.slot(a["slot2"])
                if osl.free or sl.free:
                    raise Skip("free")
                info["r"] = bool(t == osl.t)
            elif kind == "queries":
                info["r"] = [bool(f.isEmpty()), f.countValues(), len(f), f.getDepth(),
                             repr(f.minCoord()), repr(f.maxCoord())]
                f.getShape()
                f.estimateShape()
                f.getActive()
                f.getRankIds()
                f.getDefault()
                if not sl.free:
                    t.getShape()
                    t.getRankIds()
                    t.getDepth()
                    t.getDefault()
                    t.countValues()
                    t.getName()
                    t.isMutable()
                    for rid in t.getRankIds():
                        t.getFormat(rid)
                    # the empty value is handed out as a fresh box each time: nobody can edit the rank's default through it
                    lr = t.ranks[-1] if t.ranks else None
                    if lr is not None:
                        d1, d2 = lr.getDefault(), lr.getDefault()
                        if isinstance(d1, Payload) and d1 is d2:
                            self.V("C10", "C10.no-alias", "ro_queries",
                                   f"two calls of getDefault() on rank {lr.getId()} return the same box object ({d1!r}): a "
                                   f"result built from it shares it with the operand")
            elif kind == "nonempty":
                ne = f.nonEmpty()
                info["n"] = len(ne)
            elif kind == "str":
                s1 = str(t)
                repr(t)
                format(t, "")
                str(f)
                repr(f)
                if not sl.free:
                    for r in t.ranks:
                        str(r)
                        repr(r)
                    t.print()
                f.print()
                info["len"] = len(s1)
            elif kind == "dict":
                dct = f.fiber2dict()
                info["k"] = len(dct) if hasattr(dct, "__len__") else 0
            elif kind == "dump":
                if sl.free or any(not _flat_ok(x) for x in sl.shape):
                    raise Skip("yaml needs int coords")
                self.nfiles += 1
                t.dump(os.path.join(self.scratch, f"ro{self.nfiles}.yaml"))
            elif kind == "uncompress":
                if any(not _flat_ok(x) for x in sl.shape[level:]):
                    raise Skip("shape")
                if _dense_volume(sl, f, level) > 60000:
                    raise Skip("dense form too large")
                f.uncompress()
            elif kind == "getitem":
                if len(f.coords):
                    f[a.get("pos", 0) % len(f.coords)]
                    f[-1]
            elif kind == "project":
                if not _flat_ok(sl.shape[level]):
                    raise Skip("shape")
                S = sl.shape[level]
                lazy = f.project(trans_fn=(lambda c: S - 1 - c) if a.get("rev") else (lambda c: c + 1))
                info["n"] = _consume(lazy)
            elif kind == "prune":
                lazy = f.prune(trans_fn=lambda i, c, p: i % 2 == 0)
                info["n"] = _consume(lazy)
            elif kind == "format":
                if sl.free:
                    raise Skip("free")
                from fibertree.model.format import Format
                spec = {}
                ids = t.getRankIds()
                if any(not isinstance(r, str) for r in ids):
                    raise Skip("list rank ids")
                auth = t.getShape(authoritative=True)
                for i, rid in enumerate(ids):
                    # an uncompressed footprint needs the rank's shape: only where the tensor declares it
                    u_ok = auth is not None and i < len(auth) and isinstance(auth[i], int) and auth[i] > 0
                    spec[rid] = {"format": "U" if (a.get("fmtmask", 0) >> i) & 1 and u_ok else "C",
                                 "rhbits": 3, "fhbits": 5, "cbits": 7, "pbits": 11}
                # a Format object describes the live tensor: a caller may keep it across later mutations
                keep = getattr(self, "_formats", None)
                if keep is None:
                    keep = self._formats = {}
                old_fm = keep.get(a["slot"])
                skey = repr(spec)          # (Format fills defaults into the dictionary it is given)
                if a.get("reuse") and old_fm is not None and old_fm[0] is t and old_fm[1] == skey:
                    fm = old_fm[2]
                    self.probe("format_object_reused")
                else:
                    fm = Format(t, spec)
                    keep[a["slot"]] = (t, skey, fm, a.get("fmtmask", 0))
                tot = fm.getTensor()
                per = [fm.getRank(r) for r in ids]
                fm.getSubTree()
                # C02 "consequently": per-rank footprint describes the live tree and nothing else
                lv = ob.levels(sl.root)
                for i, rid in enumerate(ids):
                    want = 3
                    for fb in (lv[i] if i < len(lv) else []):
                        n = len(fb.coords) if spec[rid]["format"] == "C" else auth[i]
                        want += 5 + 18 * n
                    if per[i] != want:
                        self.V("C02", "C02.derived-footprint", "ro_format",
                               f"Format.getRank({rid}) = {per[i]}, the live tree gives {want}")
                info["bits"] = tot
            elif kind == "render":
                if sl.free:
                    raise Skip("free")
                from fibertree.graphics.tensor_image import TensorImage
                style = a.get("style", "tree")
                if style != "tree" and any(not _flat_ok(x) for x in sl.shape):
                    raise Skip("shape")
                if style != "tree" and _dense_volume(sl, sl.root, 0) > 60000:
                    raise Skip("dense form too large")
                hl = {}
                if a.get("hl"):
                    # workers are names, PE numbers or PE coordinates (a list of [worker, points] pairs; older
                    # replay files hold a dictionary keyed by name)
                    items = a["hl"].items() if isinstance(a["hl"], dict) else a["hl"]
                    hl = {(tuple(w) if isinstance(w, list) else w): [dec_point(p) for p in pts] for w, pts in items}
                    self.probe("rendered_with_highlights")
                    if any(not isinstance(w, str) for w in hl):
                        self.probe("rendered_with_non_string_workers")
                im1 = TensorImage(t, style=style, highlights={w: list(p) for w, p in hl.items()}).im
                try:
                    im2 = TensorImage(t, style=style, highlights={w: list(p) for w, p in hl.items()}).im
                except Exception as e:
                    im2 = None
                    self.V("C10", "C10.render-twice", "ro_render",
                           f"the first rendering of slot {a['slot']} ({style}, highlights {hl}) succeeded, the second "
                           f"raised {type(e).__name__}: {str(e)[:60]}")
                self.probe("rendered")
                if a.get("hl") and a.get("reset"):
                    # the caller resets the highlight colours before each picture: same picture each time
                    from fibertree.graphics.image_utils import ImageUtils
                    try:
                        ImageUtils.resetColors()
                        ia = TensorImage(t, style=style, highlights={w: list(p) for w, p in hl.items()}).im
                        ImageUtils.resetColors()
                        ib = TensorImage(t, style=style, highlights={w: list(p) for w, p in hl.items()}).im
                        if ia.size != ib.size or ia.tobytes() != ib.tobytes():
                            self.V("C10", "C10.render-twice", "ro_render",
                                   f"two renderings of slot {a['slot']} ({style}, highlights {hl}), each right after "
                                   f"ImageUtils.resetColors(), differ")
                        self.probe("rendered_after_reset_colors")
                    except Violation:
                        raise
                    except Exception:
                        pass
                if im2 is not None and (im1.size != im2.size or im1.tobytes() != im2.tobytes()):
                    self.V("C10", "C10.render-twice", "ro_render",
                           f"two consecutive renderings of slot {a['slot']} ({style}, highlights {hl}) differ")
            elif kind == "clearstats":
                if sl.free:
                    raise Skip("free")
                t.clearStats()
                lv = ob.levels(sl.root)
                for fibs in lv:
                    for fb in fibs:
                        st = fb.getSavedPosStats(clear=False)
                        if tuple(st) != (0, 0):
                            self.V("C02", "C02.derived-clearstats", "ro_clearstats",
                                   f"after Tensor.clearStats() a live fiber still has saved-position statistics {st}")
            else:
                raise Skip("kind")
    except Skip:
        raise
    except Exception as e:
        self.probe(f"ro_raised:{kind}:{type(e).__name__}")
        return {"status": f"exc:{type(e).__name__}", "msg": str(e)[:80]}
    self.probe("ro_ok:" + kind)
    info["kind"] = kind
    if twin is not None:
        _twin_differential(self, sl, twin, pre, kind, a)
    if a.get("freetwin") and not sl.free and sl.depth >= 2 and self.prop == "C10":
        _free_twin(self, sl, a)
    return info


def _attrs_view(f):
    """what the rank attributes of every fiber of a free-standing tree say (read through the attribute getters only)"""
    out = []

    def rec(g, d):
        ra = g.getRankAttrs()
        row = [d]
        for fn in (ra.getId, ra.getShape, ra.getFormat, ra.getDefault):
            try:
                v = fn()
                row.append(repr(Payload.get(v)) if not isinstance(v, type) else v.__name__)
            except Exception as e:
                row.append("raised " + type(e).__name__)
        row.append(g.getOwner() is None)
        out.append(row)
        for p in g.payloads:
            if isinstance(p, Fiber):
                rec(p, d + 1)
    rec(f, 0)
    return out


def _free_twin(self, sl, a):
    """C10 on free-standing multi-level fibers: two identical, unowned trees are built; a battery of read-only queries
    runs on one of them only; afterwards both still say the same about themselves"""
    try:
        d = sl.root.fiber2dict()
        f1 = Fiber.dict2fiber(copy.deepcopy(d))
        f2 = Fiber.dict2fiber(copy.deepcopy(d))
    except Exception:
        return
    if not isinstance(f1, Fiber) or not any(isinstance(p, Fiber) for p in f1.payloads):
        return
    before = (ob.enc_fiber(f1), _attrs_view(f2))
    try:
        with contextlib.redirect_stdout(io.StringIO()):
            f1.isEmpty()
            f1.countValues()
            len(f1)
            _consume(iter(f1))
            f1.getDefault()
            f1.getDepth()
            f1.minCoord()
            f1.maxCoord()
            str(f1)
            f1.nonEmpty()
    except Exception:
        return
    self.probe("free_nested_fiber_queried")
    if ob.enc_fiber(f1) != before[0]:
        self.V("C10", "C10.readonly-pure", "ro_freetwin", "read-only queries changed a free-standing multi-level fiber")
    v1, v2 = _attrs_view(f1), _attrs_view(f2)
    if v1 != v2:
        diff = next(((x, y) for x, y in zip(v1, v2) if x != y), (v1[:1], v2[:1]))
        self.V("C10", "C10.read-only-leaves-no-hidden-state", "ro_freetwin",
               f"after read-only queries a free-standing multi-level fiber describes itself differently from an identical "
               f"fiber that was not queried: (depth, id, shape, format, default, unowned) {diff[0]} vs {diff[1]}")


def _behaviour(t, perms=()):
    """what later callers can see of a tensor: the tree, every fiber's shape and active range, the offered
    coordinates of an uncompressed walk, and what a few value-returning operations now return"""
    out = [ob.snapshot(t, with_ranks=False)["tree"], repr(t.getShape()), repr(t.getShape(authoritative=True))]
    ids = t.getRankIds()
    for perm in perms:
        if sorted(perm) != list(range(len(ids))):
            continue
        try:
            r = t.swizzleRanks([ids[i] for i in perm])
            out.append(["swizzle", list(perm), ob.snapshot(r, with_ranks=False)["tree"]])
        except Exception as e:
            out.append(["swizzle", list(perm), "raised " + type(e).__name__])
    for d, fibs in enumerate(ob.levels(ob.root_of(t))):
        for fb in fibs:
            row = [d]
            for fn in (fb.getActive, fb.getShape, fb.estimateShape):
                try:
                    row.append(repr(fn()))
                except Exception as e:
                    row.append("raised " + type(e).__name__)
            try:
                row.append([c for (c, _), _ in zip(fb.iterActiveShape(), range(40))])
            except Exception as e:
                row.append("raised " + type(e).__name__)
            out.append(row)
    return out


def _twin_differential(self, sl, twin, pre, kind, a, family="ro"):
    """C10, hidden state: a read-only operation leaves nothing behind that a later mutation could expose.
    `twin` is a deep copy taken before the operation; a deep copy taken after it must behave the same once
    both have grown by the same element."""
    try:
        after = copy.deepcopy(sl.t)
    except Exception:
        return
    f = ob.find_fiber(ob.root_of(after), pre)
    if f is None:
        return
    if any(not isinstance(c, int) or isinstance(c, bool) for c in f.coords):
        return
    top = (max(f.coords) if f.coords else 0) + 2
    point = tuple(pre) + (top,) + (0,) * (sl.depth - len(pre) - 1)
    n = sl.depth
    perms = []
    if n >= 2:
        perms = [list(range(n))[::-1]]
        if a.get("kind") == "swizzle" and "perm" in a:
            perms.append(list(a["perm"]))
    res = []
    for tt in (twin, after):
        try:
            ref = tt.getPayloadRef(*point)
            ref <<= 7
            res.append(_behaviour(tt, perms))
        except Exception as e:
            res.append("raised " + type(e).__name__)
    self.probe("twin_differential" if family == "ro" else "twin_differential_vr")
    if res[0] != res[1]:
        diff = ""
        if isinstance(res[0], list) and isinstance(res[1], list):
            for x, y in zip(res[0], res[1]):
                if x != y:
                    diff = f": untouched copy {repr(x)[:90]} vs copy taken after the operation {repr(y)[:90]}"
                    break
        self.V("C10", "C10.read-only-leaves-no-hidden-state" if family == "ro" else "C10.operand-keeps-no-hidden-state",
               family + "_" + kind,
               f"after {kind} on slot {a['slot']} at {pre}, a copy of the tensor grown by {point} behaves differently "
               f"from a copy taken before the operation and grown the same way" + diff)


# ---------------------------------------------------------------------------- generation
VR_KINDS = ["splitUniform", "splitNonUniform", "splitEqual", "splitUnEqual", "truediv", "floordiv", "swizzle",
            "swap", "flatten", "unflatten", "merge", "updateCoords", "updatePayloads", "deepcopy", "fibercopy",
            "fadd", "fmul"]
RO_KINDS = ["iter", "occ", "active", "shape", "activeshape", "range", "rangeshape", "and", "or", "xor", "sub",
            "intersection", "intersection_lf", "union", "coitershape", "eq", "teq", "queries", "nonempty", "str",
            "dict", "dump", "uncompress", "getitem", "project", "prune", "format", "clearstats"]


def gen_vr(self, g):
    if len(self.slots) < 2:
        return None
    srcs = [s for s, sl in self.slots.items() if not sl.free]
    if not srcs:
        return None
    s = g.choice(srcs)
    # a flattened tensor in the world: the transform that only applies to it gets its turn (it was reached in 1 run of
    # 1000 otherwise, and seeded change C02-G was detected or not by a hair)
    flat = [x for x in srcs if any(isinstance(e, (list, tuple)) for e in self.slots[x].shape)]
    want_unflatten = bool(flat) and g.random() < 0.35
    if want_unflatten:
        s = g.choice(flat)
    dsts = [x for x in self.slots if x != s and not self.frozen(x)]
    if not dsts:
        return None
    dst = g.choice(dsts)
    sl = self.slots[s]
    kind = "unflatten" if want_unflatten else g.choice(VR_KINDS)
    nr = sl.depth
    a = {"src": s, "dst": dst, "kind": kind}
    d = g.randrange(nr)
    a["depth"] = d
    S = sl.shape[d] if _flat_ok(sl.shape[d]) else 4
    if kind == "splitUniform":
        a["step"] = g.randrange(1, S + 1)
        if g.random() < 0.3:
            a["relativeCoords"] = True
    elif kind == "splitNonUniform":
        n = g.randrange(1, 4)
        a["splits"] = sorted(g.sample(range(0, S + 1), min(n, S + 1)))
        if a["splits"][0] != 0 and g.random() < 0.7:
            a["splits"] = [0] + a["splits"]
    elif kind == "splitEqual":
        a["step"] = g.randrange(1, 4)
    elif kind == "splitUnEqual":
        a["sizes"] = [g.randrange(1, 3) for _ in range(g.randrange(1, 4))]
    elif kind in ("truediv", "floordiv"):
        a["n"] = g.randrange(1, 4)
    elif kind == "swizzle":
        perm = list(range(nr))
        g.shuffle(perm)
        a["perm"] = perm
    elif kind == "swap":
        if nr < 2:
            return None
        a["depth"] = g.randrange(nr - 1)
    elif kind in ("flatten", "merge"):
        if nr < 2:
            return None
        a["depth"] = g.randrange(nr - 1)
        a["levels"] = g.randrange(1, nr - a["depth"])
        if kind == "flatten":
            a["style"] = g.choice(["tuple", "tuple", "pair", "linear"])
        else:
            a["style"] = g.choice(["absolute", "relative"])
    elif kind == "unflatten":
        cands = [i for i, x in enumerate(sl.shape) if isinstance(x, (list, tuple))]
        if not cands:
            return None
        a["depth"] = g.choice(cands)
        a["levels"] = 1
    elif kind == "updatePayloads":
        a["k"] = g.randrange(1, 4)
    elif kind == "fibercopy":
        a["preserve"] = g.random() < 0.6
        if nr >= 2 and g.random() < 0.35:
            pre = self.existing_prefix(g, sl, g.randrange(1, nr))
            if pre is not None:
                a["prefix"] = enc_point(pre)
    if g.random() < 0.25:
        a["twin"] = True
    if kind in ("fadd", "fmul"):
        pre = self.existing_prefix(g, sl, nr - 1)
        if pre is None:
            return None
        a["prefix"] = enc_point(pre)
        if g.random() < 0.4:
            a["scalar"] = g.choice([2, 3, 1, 1, 0, -1])   # (the identity and the annihilator are values like any other)
        else:
            o = g.choice(srcs)
            osl = self.slots[o]
            opre = self.existing_prefix(g, osl, osl.depth - 1)
            if opre is None:
                return None
            a["other"], a["other_prefix"] = o, enc_point(opre)
    return ["op", "vr", a]


def gen_ro(self, g):
    cands = [s for s, sl in self.slots.items()]
    if not cands:
        return None
    s = g.choice(cands)
    kept = getattr(self, "_formats", None)
    if self.prop == "C02" and kept and g.random() < 0.12:
        # ask a Format object created earlier again, after whatever happened to its tensor since
        s = g.choice(sorted(kept))
        if s in self.slots and self.slots[s].t is kept[s][0]:
            return ["op", "ro", {"slot": s, "kind": "format", "prefix": [], "fmtmask": kept[s][3], "reuse": True}]
        s = g.choice(cands)
    sl = self.slots[s]
    kind = g.choice(RO_KINDS)
    if self.prop == "C02" and g.random() < 0.2:
        kind = g.choice(["format", "format", "clearstats", "str"])       # the derived per-rank quantities
    if sl.free:
        return None
    k = g.randrange(sl.depth)
    pre = self.existing_prefix(g, sl, k)
    if pre is None:
        k, pre = 0, ()
    a = {"slot": s, "kind": kind, "prefix": enc_point(pre)}
    if kind in ("range", "rangeshape"):
        S = sl.shape[k] if _flat_ok(sl.shape[k]) else None
        if S is None:
            return None
        a["lo"] = g.randrange(0, S)
        a["hi"] = g.randrange(a["lo"], S + 2)
        a["step"] = g.choice([1, 1, 2])
    if kind in ("and", "or", "xor", "sub", "intersection", "intersection_lf", "union", "coitershape", "eq"):
        o = g.choice(cands)
        osl = self.slots[o]
        if osl.free:
            return None
        ko = osl.depth - (sl.depth - k)
        if ko < 0:
            return None
        opre = self.existing_prefix(g, osl, ko)
        if opre is None:
            return None
        a["slot2"], a["prefix2"] = o, enc_point(opre)
        if g.random() < 0.3:
            a["three"] = True
    if kind == "teq":
        a["slot2"] = g.choice(cands)
    if kind == "getitem":
        a["pos"] = g.randrange(8)
    if kind == "project":
        a["rev"] = g.random() < 0.5
    if kind == "format":
        a["fmtmask"] = g.choice([0, 0, g.randrange(8)])
        a["reuse"] = g.random() < 0.7
    if g.random() < 0.3:
        a["twin"] = True
    if self.prop == "C10" and sl.depth >= 2 and g.random() < 0.1:
        a["freetwin"] = True
    return ["op", "ro", a]


def gen_render(self, g):
    cands = [s for s, sl in self.slots.items() if not sl.free]
    if not cands:
        return None
    s = g.choice(cands)
    sl = self.slots[s]
    a = {"slot": s, "kind": "render", "prefix": [],
         "style": g.choice(["tree", "uncompressed", "tree+uncompressed"])}
    if g.random() < 0.6 and sl.depth >= 1 and all(isinstance(x, int) for x in sl.shape):
        # highlights: full points and points with fewer coordinates than the tensor has ranks
        # several workers per picture, drawn from more names than the renderer has colours (ten)
        a["hl"] = []
        pool = ["PE"] + [f"PE{i}" for i in range(13)]
        if g.random() < 0.4:
            pool = ["PE", 0, 1, 2, [0, 0], [0, 1], [1, 0], 7, "PE3"]      # PE numbers and PE coordinates too
        for w in g.sample(pool, min(len(pool), g.choice([1, 1, 2, 4, 7, 11]))):
            pts = []
            for _ in range(g.randint(1, 2)):
                n = g.randint(1, sl.depth)
                pts.append(enc_point(self.rand_path(g, sl, n)))
            a["hl"].append([w, pts])
        a["reset"] = g.random() < 0.4
    return ["op", "ro", a]


def install(cls):
    cls.op_vr = op_vr
    cls.op_ro = op_ro
    cls.gen_vr = gen_vr
    cls.gen_ro = gen_ro
    cls.gen_render = gen_render
