#!/venv/bin/python
"""Entry point of every registered check.

    check.py <property> --tier quick|thorough      explore, exit 0 / 1 (VIOLATION line) / 2 (harness fault)
    check.py <property> --replay <file>            re-execute a replay file in a fresh child
    check.py selftest determinism|sensitivity ...  machinery self-tests
"""
import os
import sys

if os.environ.get("DST_HASHSEED_FIXED") != "1" and \
        (os.environ.get("PYTHONHASHSEED") != "0" or os.environ.get("PYTHONDONTWRITEBYTECODE") != "1"):
    os.environ["PYTHONHASHSEED"] = "0"
    os.environ["PYTHONDONTWRITEBYTECODE"] = "1"
    os.execv(sys.executable, [sys.executable] + sys.argv)

HERE = os.path.dirname(os.path.abspath(__file__))
VERIF = os.path.dirname(HERE)
sys.path.insert(0, VERIF)
# the registered commands always check /repo's working tree; DST_REPO is only for trying a seeded change in a
# scratch worktree while /repo is in use by a long run
REPO = os.environ.get("DST_REPO", "/repo").rstrip("/")
sys.path.insert(0, REPO)

import argparse
import json
import shutil
import time
import warnings

warnings.simplefilter("ignore")

import fibertree  # noqa: E402  (the pristine parent imports the library once)

assert os.path.abspath(fibertree.__file__).startswith(REPO + "/"), fibertree.__file__

from dst import core  # noqa: E402
from dst.registry import REGISTRY  # noqa: E402


def scratch_root():
    base = "/dev/shm" if os.path.isdir("/dev/shm") else "/var/tmp"
    p = os.path.join(base, f"fibertree-dst-{os.getpid()}")
    os.makedirs(p, exist_ok=True)
    return p


def budgets(spec, tier):
    b = spec["budget"][tier]
    env = os.environ.get("VERIF_BUDGET_S")
    if env:
        b = dict(b, wall=float(env))
    return b


def main():
    ap = argparse.ArgumentParser()
    ap.add_argument("prop")
    ap.add_argument("rest", nargs="*")
    ap.add_argument("--tier", default=os.environ.get("VERIF_TIER", "quick"))
    ap.add_argument("--replay")
    ap.add_argument("--workers", type=int, default=int(os.environ.get("VERIF_WORKERS", "0")) or (os.cpu_count() or 4))
    ap.add_argument("--max-runs", type=int, default=0)
    ap.add_argument("--no-evidence", action="store_true")
    ap.add_argument("--mutant")
    ap.add_argument("--stats", action="store_true")
    ap.add_argument("--run", type=int, default=None, help="execute one run index and print its log")
    args = ap.parse_args()
    seed = int(os.environ.get("VERIF_SEED", "1"))
    if args.prop == "selftest":
        from dst import selftest
        sys.exit(selftest.main(args.rest, seed, args.workers))
    if args.prop not in REGISTRY:
        print(f"unknown property {args.prop}; claimed: {sorted(REGISTRY)}")
        sys.exit(2)
    spec = REGISTRY[args.prop]
    root = scratch_root()
    try:
        if args.mutant:
            from dst import mutants
            mutants.apply(args.mutant)
        if args.run is not None:
            batch = core.Batch(spec["world"], args.prop, seed, args.tier, 1, root)
            try:
                res = batch.one_run(args.run, keep_log=True)
                for ev, out in res["log"]:
                    print(json.dumps(ev), "->", json.dumps(out, default=repr))
                print("violation:", res["violation"], "digest", res["digest"])
                code = 0
            except core.ChildFailure as e:
                print(e)
                code = 2
        elif args.replay:
            code = do_replay(spec, args.prop, args.replay, root)
        else:
            code = do_check(spec, args.prop, args.tier, seed, args.workers, root, args)
    finally:
        shutil.rmtree(root, ignore_errors=True)
    sys.exit(code)


def do_replay(spec, prop, path, root):
    with open(path) as f:
        plan = json.load(f)
    world_cls = spec["world"]
    try:
        res = core.replay_plan(world_cls, plan, root)
    except core.ChildFailure as e:
        print(f"HARNESS-FAULT replay child failed: {e}")
        return 2
    v = res["violation"]
    want = plan.get("violation")
    if v is None:
        print(f"NOT-REPRODUCED property={prop} replay={path} (the recorded violation does not occur on this tree)")
        return 0
    print(json.dumps(v, indent=1))
    print(f"digest {res['digest']}")
    if want is not None and core.vclass(want) != core.vclass(v):
        print(f"note: recorded violation class was {core.vclass(want)}")
    known = core.match_known(v, core.load_known())
    if known is not None:
        print(f"KNOWN-FINDING: property={prop} {known['what']}")
        return 0
    print(f"VIOLATION property={prop} replay={path}")
    return 1


def do_check(spec, prop, tier, seed, workers, root, args):
    t0 = time.time()
    world_cls = spec["world"]
    b = budgets(spec, tier)
    known = core.load_known()
    agg = Aggregate(prop)
    violations = []   # unknown
    known_hits = {}
    regress_n = [0]

    def on_result(res):
        agg.add(res)
        v = res["violation"]
        if v is not None:
            k = core.match_known(v, known)
            if k is not None:
                known_hits.setdefault(k["id"], []).append(res)
            else:
                violations.append(res)

    def stop_on(res):
        return len(violations) >= 3

    batch = core.Batch(world_cls, prop, seed, tier, workers, root, run_timeout=b.get("run_timeout", 60.0))
    max_runs = args.max_runs or b["max_runs"]
    failures = batch.run(max_runs, b["wall"], dup_every=b.get("dup_every", 50), on_result=on_result, stop_on=stop_on)
    code = 0
    lines = []
    # extra deterministic parts of the check (enumerations, known-finding replays)
    extra = spec.get("extra")
    extra_cov = {}
    if extra is not None and not violations:
        try:
            ecode, extra_cov, elines = extra(prop, tier, seed, root, known)
            lines += elines
            code = max(code, ecode)
        except core.ChildFailure as e:
            failures.append((-2, f"extra part failed: {e}"))
    nondet = [r for r in agg.dups if r[1] != r[2]]
    if nondet:
        print(f"HARNESS-NONDETERMINISM {len(nondet)} of {len(agg.dups)} duplicated runs differ, e.g. run {nondet[0][0]}")
        code = 2
    if failures:
        for idx, why in failures[:5]:
            print(f"HARNESS-FAULT run={idx}: {why.strip().splitlines()[-1] if why.strip() else why}")
        if len(failures) > max(2, agg.n // 200):
            code = 2
    # fixed findings: their replays must stay quiet; a fixed entry suppresses nothing
    for k in known:
        if k.get("property") != prop or k.get("status") != "fixed" or not k.get("replay"):
            continue
        rp = os.path.join(core.VERIF, k["replay"])
        if not os.path.exists(rp):
            continue
        with open(rp) as f:
            plan = json.load(f)
        if plan.get("world", world_cls.name) != world_cls.name:
            continue
        try:
            res = core.replay_plan(world_cls, plan, root, tag="fixedreg")
        except core.ChildFailure as e:
            failures.append((-3, f"replay of fixed finding {k['id']} failed: {e}"))
            continue
        regress_n[0] += 1
        if res["violation"] is not None:
            print(json.dumps(res["violation"]))
            print(f"VIOLATION property={prop} replay={rp}")
            code = max(code, 1)
    # known findings: replay each listed one on this tree
    for k in known:
        if k.get("property") != prop or k.get("status") != "known":
            continue
        rp = os.path.join(core.VERIF, k["replay"]) if k.get("replay") else None
        still = None
        if rp and os.path.exists(rp) and k.get("world", world_cls.name) == world_cls.name:
            with open(rp) as f:
                plan = json.load(f)
            try:
                res = core.replay_plan(world_cls, plan, root, tag="known")
                still = res["violation"] is not None and core.match_known(res["violation"], [k]) is not None
            except core.ChildFailure:
                still = None
        if still or (still is None and k["id"] in known_hits):
            lines.append(f"KNOWN-FINDING: property={prop} {k['what']}")
        elif k["id"] in known_hits:
            lines.append(f"KNOWN-FINDING: property={prop} {k['what']}")
    # unknown violations: minimise, confirm in a fresh child, report
    reported = set()
    os.makedirs(os.path.join(core.OUT, "replays", prop), exist_ok=True)
    for res in violations:
        v = res["violation"]
        if core.vclass(v) in reported:
            continue
        plan = res["plan"]
        try:
            small, v2 = core.shrink(world_cls, plan, v, root, budget_s=b.get("shrink_s", 45))
            conf = core.replay_plan(world_cls, small, root, tag="confirm")
        except core.ChildFailure as e:
            print(f"HARNESS-FAULT while minimising: {e}")
            code = 2
            continue
        if conf["violation"] is None or core.vclass(conf["violation"]) != core.vclass(v2):
            print(f"HARNESS-NONDETERMINISM violation {core.vclass(v)} of run {res['run_index']} did not reproduce")
            code = 2
            continue
        small["violation"] = conf["violation"]
        small["replay_digest"] = conf["digest"]
        path = os.path.join(core.OUT, "replays", prop, conf["digest"][:16] + ".json")
        with open(path, "w") as f:
            json.dump(small, f, indent=1, default=repr)
        reported.add(core.vclass(v))
        print(json.dumps(conf["violation"]))
        print(f"VIOLATION property={prop} replay={path}")
        code = max(code, 1)
    for ln in lines:
        print(ln)
    wall = time.time() - t0
    if args.stats:
        print("kinds", json.dumps(dict(sorted(agg.kinds.items()))))
        print("faults", json.dumps(dict(sorted(agg.faults.items()))))
        print("probes", json.dumps(dict(sorted(agg.probes.items())), indent=0))
    if not args.no_evidence:
        extra_cov = dict(extra_cov, fixed_finding_replays_quiet=regress_n[0])
        ev = agg.evidence(spec, tier, seed, wall, len(reported), extra_cov, known_hits, failures, workers)
        os.makedirs(core.EVIDENCE, exist_ok=True)
        with open(os.path.join(core.EVIDENCE, f"{prop}.json"), "w") as f:
            json.dump(ev, f, indent=1, default=repr)
    print(f"{prop} tier={tier} seed={seed} runs={agg.n} nontrivial_distinct={len(agg.nontrivial)} "
          f"events={agg.events} violations={len(reported)} known={len(known_hits)} "
          f"harness_failures={len(failures)} wall={wall:.1f}s exit={code}")
    return code


class Aggregate:
    def __init__(self, prop):
        self.prop = prop
        self.n = 0
        self.events = 0
        self.steps = 0
        self.kinds = {}
        self.faults = {}
        self.probes = {}
        self.sched = set()
        self.states = set()
        self.digests = set()
        self.nontrivial = set()
        self.samples = []
        self.dups = []
        self.skipped = 0

    def add(self, res):
        self.n += 1
        self.events += res["executed"]
        self.steps += res["steps"]
        for k, v in res["kinds"].items():
            self.kinds[k] = self.kinds.get(k, 0) + v
        for k, v in res["faults"].items():
            self.faults[k] = self.faults.get(k, 0) + v
        for k, v in res["probes"].items():
            self.probes[k] = self.probes.get(k, 0) + v
        self.sched.add(res["sched_sig"])
        self.states.update(res["states"])
        self.digests.add(res["digest"])
        if res["nontrivial"]:
            self.nontrivial.add(res["digest"])
        if "plan" in res and res["violation"] is None and len(self.samples) < 3:
            p = res["plan"]
            self.samples.append({"run_index": res["run_index"], "run_seed": p["run_seed"], "swarm": p["swarm"],
                                 "events": p["events"][:40]})
        if "dup_digest" in res:
            self.dups.append((res["run_index"], res["digest"], res["dup_digest"]))

    def evidence(self, spec, tier, seed, wall, nviol, extra_cov, known_hits, failures, workers):
        cov = {
            "evaluations": self.n + int(extra_cov.get("evaluations", 0)),
            "distinct_nontrivial": len(self.nontrivial) + int(extra_cov.get("distinct_nontrivial", 0)),
            "rule": spec["rule"],
            "samples": self.samples or extra_cov.get("samples", []),
            "simulated_runs": self.n,
            "runs_per_hour": int(self.n / wall * 3600) if wall > 0 else 0,
            "events_executed": self.events,
            "simulated_steps_logical_clock": self.steps,
            "simulated_time": "none: the system under test has no clock or timer; the logical clock is the event count",
            "events_by_kind": dict(sorted(self.kinds.items())),
            "faults_fired_by_kind": dict(sorted(self.faults.items())),
            "reach_probes": dict(sorted(self.probes.items())),
            "distinct_schedule_signatures": len(self.sched),
            "distinct_world_states": len(self.states),
            "distinct_run_digests": len(self.digests),
            "determinism_spot_check": {"runs_executed_twice": len(self.dups),
                                       "digest_mismatches": len([d for d in self.dups if d[1] != d[2]])},
            "known_findings_hit": {k: len(v) for k, v in known_hits.items()},
            "harness_failures": len(failures),
            "workers": workers,
            "components": spec["components"],
            "exhaustive": False,
        }
        for k, v in extra_cov.items():
            if k not in ("evaluations", "distinct_nontrivial", "samples"):
                cov[k] = v
        return {
            "property_id": self.prop,
            "tier": tier,
            "seed": seed,
            "level": spec["level"],
            "coverage": cov,
            "assumptions": spec["assumptions"],
            "wall_s": round(wall, 2),
            "violations": nviol,
        }


if __name__ == "__main__":
    main()
