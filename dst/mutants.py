"""In-memory mutants for the sensitivity self-test.

A mutant is a list of source rewrites applied to live function objects of the imported
library inside the (pristine) parent process; forked children inherit them.  /repo is
never edited.  `check.py <prop> --mutant <name>` runs a check against a mutant.
"""
import inspect
import sys
import textwrap


def _rebuild(func, old, new, count=1):
    src = textwrap.dedent(inspect.getsource(func))
    assert src.count(old) == count, f"{func.__qualname__}: snippet occurs {src.count(old)}x, wanted {count}: {old!r}"
    src = src.replace(old, new)
    # drop decorators: we re-wrap by hand
    lines = src.splitlines()
    while lines and lines[0].lstrip().startswith("@"):
        lines.pop(0)
    src = "\n".join(lines)
    glb = func.__globals__
    loc = {}
    exec(compile(src, f"<mutant {func.__qualname__}>", "exec"), glb, loc)
    return loc[func.__name__]


def patch_method(cls, name, old, new, count=1, kind="method"):
    raw = cls.__dict__[name]
    func = raw.__func__ if isinstance(raw, (staticmethod, classmethod)) else raw
    nf = _rebuild(func, old, new, count)
    if isinstance(raw, staticmethod):
        nf = staticmethod(nf)
    elif isinstance(raw, classmethod):
        nf = classmethod(nf)
    setattr(cls, name, nf)


def patch_modfunc(mod, name, old, new, count=1, also=()):
    func = getattr(mod, name)
    nf = _rebuild(func, old, new, count)
    setattr(mod, name, nf)
    for owner in also:
        setattr(owner, name, nf)


def _mods():
    import fibertree
    from fibertree.core import fiber, iterators, payload, rank, rank_attrs, tensor, metrics
    from fibertree.model import traffic, compute, intersect
    return dict(fiber=fiber, iterators=iterators, payload=payload, rank=rank, rank_attrs=rank_attrs,
                tensor=tensor, metrics=metrics, traffic=traffic, compute=compute, intersect=intersect,
                Fiber=fiber.Fiber, Payload=payload.Payload, Rank=rank.Rank, RankAttrs=rank_attrs.RankAttrs,
                Tensor=tensor.Tensor, Metrics=metrics.Metrics)


MUTANTS = {}


def mutant(name, prop):
    def deco(fn):
        MUTANTS[name] = (prop, fn)
        return fn
    return deco


# ------------------------------------------------------------------------------- C01
@mutant("c01_append_no_assert", "C01")
def _(m):
    patch_method(m["Fiber"], "append", "assert self.maxCoord() is None or self.maxCoord() < coord", "assert True")


@mutant("c01_coord2pos_bisect_right", "C01")
def _(m):
    patch_method(m["Fiber"], "_coord2pos", "index = bisect.bisect_left(coords, coord)",
                 "index = bisect.bisect_right(coords, coord)")


@mutant("c01_setitem_write_before_right_check", "C01")
def _(m):
    patch_method(m["Fiber"], "__setitem__",
                 "                if position + 1 < len(self.coords) and coord >= self.coords[position + 1]:\n"
                 "                    raise CoordinateError\n",
                 "                self.coords[position] = coord\n"
                 "                if position + 1 < len(self.coords) and coord >= self.coords[position + 1]:\n"
                 "                    raise CoordinateError\n")


@mutant("c01_setitem_no_left_check", "C01")
def _(m):
    patch_method(m["Fiber"], "__setitem__", "if position > 0 and coord <= self.coords[position - 1]:",
                 "if position > 0 and coord < self.coords[position - 1]:")


@mutant("c01_updatecoords_no_resort", "C01")
def _(m):
    patch_method(m["Fiber"], "updateCoords", "if self._ordered and not no_sort_needed:", "if False:")


@mutant("c01_create_payload_pos_plus1", "C01")
def _(m):
    patch_method(m["Fiber"], "_create_payload", "pos = self._coord2pos(coord)", "pos = min(len(self.coords), self._coord2pos(coord) + 1)")


@mutant("c01_setitem_stores_unboxed", "C01")
def _(m):
    # (double boxing cannot be produced: Payload.__setattr__ unboxes a Payload value by construction)
    patch_method(m["Fiber"], "__setitem__", "self.payloads[position] = Payload.maybe_box(payload)",
                 "self.payloads[position] = payload")


@mutant("c01_populate_delete_wrong_index", "C01")
def _(m):
    patch_modfunc(m["iterators"], "__lshift__", "index = bisect.bisect_left(self.a_fiber.coords, b_coord)",
                  "index = max(0, bisect.bisect_left(self.a_fiber.coords, b_coord) - 1)", also=(m["Fiber"],))


@mutant("c01_extend_no_assert", "C01")
def _(m):
    patch_method(m["Fiber"], "extend", "assert self.maxCoord() is None or self.maxCoord() < other.coords[0]", "assert True")


# ------------------------------------------------------------------------------- C02
@mutant("c02_instantiate_never_appends", "C02")
def _(m):
    patch_method(m["Fiber"], "_instantiateDefault", "if addtorank:", "if False:")


@mutant("c02_populate_no_pop", "C02")
def _(m):
    patch_method(m["Rank"], "pop", "fiber = self.fibers.pop()", "fiber = self.fibers[-1]")


@mutant("c02_getpayload_adds_to_rank", "C02")
def _(m):
    patch_method(m["Fiber"], "getPayload", "payload = self._createDefault(addtorank=False)",
                 "payload = self._createDefault(addtorank=True)")


@mutant("c02_setroot_no_clear", "C02")
def _(m):
    patch_method(m["Rank"], "clearFibers", "self.fibers = []", "pass")


@mutant("c02_clear_no_detach", "C02")
def _(m):
    patch_method(m["Fiber"], "clear", "self._detachDescendants()", "pass")


@mutant("c02_or_adds_to_rank", "C02")
def _(m):
    patch_modfunc(m["iterators"], "__or__", "self.a_fiber._createDefault(addtorank=False)",
                  "self.a_fiber._createDefault()", count=2, also=(m["Fiber"],))


@mutant("c02_rank_append_no_owner", "C02")
def _(m):
    patch_method(m["Rank"], "append", "        fiber.setOwner(self)\n\n        #\n        # Check default",
                 "        pass\n\n        #\n        # Check default")


# ------------------------------------------------------------------------------- C03
@mutant("c03_linear_search_plus1", "C03")
def _(m):
    patch_method(m["Fiber"], "_coord2pos", "for i in range(start_pos, len(coords)):",
                 "for i in range(start_pos + 1, len(coords)):")


@mutant("c03_getpayload_inserts", "C03")
def _(m):
    patch_method(m["Fiber"], "getPayload", "payload = self._createDefault(addtorank=False)",
                 "payload = self._create_payload(coord0)")


@mutant("c03_getdefault_shared_box", "C03")
def _(m):
    patch_method(m["RankAttrs"], "getDefault", "            return Payload(value)", "            return self._default")


@mutant("c03_posref_returns_next", "C03")
def _(m):
    patch_method(m["Fiber"], "getPositionRef", "            self._create_payload(coord)\n",
                 "            self._create_payload(coord)\n            index = min(index + 1, len(self.coords) - 1)\n")


@mutant("c03_getpayloadref_copy", "C03")
def _(m):
    patch_method(m["Fiber"], "getPayloadRef", "        assert Payload.is_payload(payload)\n\n        return payload",
                 "        assert Payload.is_payload(payload)\n\n        return Payload(payload.value) if len(self.coords) > 3 else payload")


@mutant("c03_getposition_startpos_off", "C03")
def _(m):
    patch_method(m["Fiber"], "getPosition", "index = self._coord2pos(coord, start_pos=start_pos)",
                 "index = self._coord2pos(coord, start_pos=(start_pos + 1 if start_pos else start_pos))")


# ------------------------------------------------------------------------------- C05
@mutant("c05_apos_not_decremented", "C05")
def _(m):
    patch_modfunc(m["iterators"], "__lshift__", "                    a_pos -= 1\n                    self.a_fiber.setSavedPos(a_pos)",
                  "                    self.a_fiber.setSavedPos(a_pos)", also=(m["Fiber"],))


@mutant("c05_never_removes", "C05")
def _(m):
    patch_modfunc(m["iterators"], "__lshift__", "                    maybe_remove = True\n", "                    maybe_remove = False\n",
                  also=(m["Fiber"],))


@mutant("c05_yield_copy", "C05")
def _(m):
    patch_modfunc(m["iterators"], "__lshift__", "                yield b_coord, (a_payload, b_payload)",
                  "                yield b_coord, ((Payload(a_payload.value) if isinstance(a_payload, Payload) and b_pos == 2 else a_payload), b_payload)",
                  also=(m["Fiber"],))


@mutant("c05_source_occupancy_always", "C05")
def _(m):
    patch_modfunc(m["iterators"], "__lshift__", "b = self.b_fiber.__iter__(tick=False)",
                  "b = self.b_fiber.iterOccupancy(tick=False)", also=(m["Fiber"],))


@mutant("c05_no_pop", "C05")
def _(m):
    patch_modfunc(m["iterators"], "__lshift__", "popped = self.a_fiber.getOwner().getNextRank().pop()",
                  "popped = a_payload", also=(m["Fiber"],))


@mutant("c05_skips_last_when_z_longer", "C05")
def _(m):
    patch_modfunc(m["iterators"], "__lshift__", "            for b_pos, (b_coord, b_payload) in enumerate(b):\n",
                  "            for b_pos, (b_coord, b_payload) in enumerate(b):\n"
                  "                if b_pos >= 3 and len(self.a_fiber.coords) > 4:\n                    break\n",
                  also=(m["Fiber"],))


# ------------------------------------------------------------------------------- C10
@mutant("c10_split_no_deepcopy", "C10")
def _(m):
    patch_method(m["Fiber"], "_splitGeneric", "copy.deepcopy(self)", "self")


@mutant("c10_updatepayloads_in_place", "C10")
def _(m):
    patch_method(m["Tensor"], "updatePayloads", "new_tensor = copy.deepcopy(self)", "new_tensor = self")


@mutant("c10_getpayload_inserts", "C10")
def _(m):
    patch_method(m["Fiber"], "getPayload", "payload = self._createDefault(addtorank=False)",
                 "payload = self._create_payload(coord0)")


@mutant("c10_fiber2dict_clears_zeros", "C10")
def _(m):
    patch_method(m["Fiber"], "countValues", "    def countValues(self, recursive=True):\n",
                 "    def countValues(self, recursive=True):\n        if self.payloads and isinstance(self.payloads[0], Payload) and self.payloads[0].value == 0:\n            del self.coords[0]; del self.payloads[0]\n")


@mutant("c10_setroot_adopts_owned", "C10")
def _(m):
    patch_method(m["Tensor"], "setRoot", "if root.getOwner() is not None:", "if False:")


@mutant("c10_swizzle_same_shares", "C10")
def _(m):
    patch_method(m["Tensor"], "swizzleRanks", "copied = copy.deepcopy(self)", "copied = copy.copy(self)")


@mutant("c10_eq_adds_to_rank", "C10")
def _(m):
    patch_modfunc(m["iterators"], "__or__", "self.b_fiber._createDefault(addtorank=False)",
                  "self.b_fiber._createDefault()", count=2, also=(m["Fiber"],))


def apply(name):
    if name not in MUTANTS:
        raise SystemExit(f"unknown mutant {name}; known: {sorted(MUTANTS)}")
    prop, fn = MUTANTS[name]
    fn(_mods())
    print(f"[mutant {name} applied in memory; expected to break {prop}]", file=sys.stderr)
    return prop
