"""In-memory mutants for the sensitivity self-test.

A mutant is a list of source rewrites applied to live function objects of the imported
library inside the (pristine) parent process; forked children inherit them.  /repo is
never edited.  `check.py <prop> --mutant <name>` runs a check against a mutant.
"""
import inspect
import sys
import textwrap


def _rebuild(func, old, new, count=1):
    src = textwrap.dedent(inspect.getsource(func))
    pairs = old if isinstance(old, list) else [(old, new)]      # several rewrites of one function at once
    for o, n in pairs:
        assert src.count(o) == count, f"{func.__qualname__}: snippet occurs {src.count(o)}x, wanted {count}: {o!r}"
        src = src.replace(o, n)
    # drop decorators: we re-wrap by hand
    lines = src.splitlines()
    while lines and lines[0].lstrip().startswith("@"):
        lines.pop(0)
    src = "\n".join(lines)
    glb = func.__globals__
    loc = {}
    exec(compile(src, f"<mutant {func.__qualname__}>", "exec"), glb, loc)
    return loc[func.__name__]


def patch_method(cls, name, old, new, count=1, kind="method"):
    raw = cls.__dict__[name]
    func = raw.__func__ if isinstance(raw, (staticmethod, classmethod)) else raw
    nf = _rebuild(func, old, new, count)
    if isinstance(raw, staticmethod):
        nf = staticmethod(nf)
    elif isinstance(raw, classmethod):
        nf = classmethod(nf)
    setattr(cls, name, nf)


def patch_modfunc(mod, name, old, new, count=1, also=()):
    func = getattr(mod, name)
    nf = _rebuild(func, old, new, count)
    setattr(mod, name, nf)
    for owner in also:
        setattr(owner, name, nf)


def _mods():
    import fibertree
    from fibertree.core import fiber, iterators, payload, rank, rank_attrs, tensor, metrics
    from fibertree.model import traffic, compute, intersect
    return dict(fiber=fiber, iterators=iterators, payload=payload, rank=rank, rank_attrs=rank_attrs,
                tensor=tensor, metrics=metrics, traffic=traffic, compute=compute, intersect=intersect,
                Fiber=fiber.Fiber, Payload=payload.Payload, Rank=rank.Rank, RankAttrs=rank_attrs.RankAttrs,
                Tensor=tensor.Tensor, Metrics=metrics.Metrics)


MUTANTS = {}


def mutant(name, prop):
    def deco(fn):
        MUTANTS[name] = (prop, fn)
        return fn
    return deco


# ------------------------------------------------------------------------------- C01
@mutant("c01_append_no_assert", "C01")
def _(m):
    patch_method(m["Fiber"], "append", "assert self.maxCoord() is None or self.maxCoord() < coord", "assert True")


@mutant("c01_coord2pos_bisect_right", "C01")
def _(m):
    patch_method(m["Fiber"], "_coord2pos", "index = bisect.bisect_left(coords, coord)",
                 "index = bisect.bisect_right(coords, coord)")


@mutant("c01_setitem_write_before_right_check", "C01")
def _(m):
    patch_method(m["Fiber"], "__setitem__",
                 "            if position + 1 < len(self.coords) and coord >= self.coords[position + 1]:\n"
                 "                raise CoordinateError\n",
                 "            self.coords[position] = coord\n"
                 "            if position + 1 < len(self.coords) and coord >= self.coords[position + 1]:\n"
                 "                raise CoordinateError\n")


@mutant("c01_setitem_no_left_check", "C01")
def _(m):
    patch_method(m["Fiber"], "__setitem__", "if position > 0 and coord <= self.coords[position - 1]:",
                 "if position > 0 and coord < self.coords[position - 1]:")


@mutant("c01_updatecoords_no_resort", "C01")
def _(m):
    patch_method(m["Fiber"], "updateCoords", "if self._ordered and not no_sort_needed:", "if False:")


@mutant("c01_create_payload_pos_plus1", "C01")
def _(m):
    patch_method(m["Fiber"], "_create_payload", "pos = self._coord2pos(coord)", "pos = min(len(self.coords), self._coord2pos(coord) + 1)")


@mutant("c01_setitem_stores_unboxed", "C01")
def _(m):
    # (double boxing cannot be produced: Payload.__setattr__ unboxes a Payload value by construction)
    patch_method(m["Fiber"], "__setitem__", "self.payloads[position] = Payload.maybe_box(payload)",
                 "self.payloads[position] = payload")


@mutant("c01_populate_delete_wrong_index", "C01")
def _(m):
    patch_modfunc(m["iterators"], "__lshift__", "index = bisect.bisect_left(self.a_fiber.coords, b_coord)",
                  "index = max(0, bisect.bisect_left(self.a_fiber.coords, b_coord) - 1)", also=(m["Fiber"],))


@mutant("c01_extend_no_assert", "C01")
def _(m):
    patch_method(m["Fiber"], "extend", "assert self.maxCoord() is None or self.maxCoord() < other.coords[0]", "assert True")


# ------------------------------------------------------------------------------- C02
@mutant("c02_instantiate_never_appends", "C02")
def _(m):
    patch_method(m["Fiber"], "_instantiateDefault", "if addtorank:", "if False:")


@mutant("c02_populate_no_pop", "C02")
def _(m):
    patch_method(m["Rank"], "pop", "fiber = self.fibers.pop()", "fiber = self.fibers[-1]")


@mutant("c02_getpayload_adds_to_rank", "C02")
def _(m):
    patch_method(m["Fiber"], "getPayload", "payload = self._createDefault(addtorank=False)",
                 "payload = self._createDefault(addtorank=True)")


@mutant("c02_setroot_no_clear", "C02")
def _(m):
    patch_method(m["Rank"], "clearFibers", "self.fibers = []", "pass")


@mutant("c02_clear_no_detach", "C02")
def _(m):
    patch_method(m["Fiber"], "clear", "self._detachDescendants()", "pass")


@mutant("c02_or_adds_to_rank", "C02")
def _(m):
    patch_modfunc(m["iterators"], "__or__", "self.a_fiber._createDefault(addtorank=False)",
                  "self.a_fiber._createDefault()", count=2, also=(m["Fiber"],))


@mutant("c02_rank_append_no_owner", "C02")
def _(m):
    patch_method(m["Rank"], "append", "        fiber.setOwner(self)\n\n        #\n        # Check default",
                 "        pass\n\n        #\n        # Check default")


# ------------------------------------------------------------------------------- C03
@mutant("c03_linear_search_plus1", "C03")
def _(m):
    patch_method(m["Fiber"], "_coord2pos", "for i in range(start_pos, len(coords)):",
                 "for i in range(start_pos + 1, len(coords)):")


@mutant("c03_getpayload_inserts", "C03")
def _(m):
    patch_method(m["Fiber"], "getPayload", "payload = self._createDefault(addtorank=False)",
                 "payload = self._create_payload(coord0)")


@mutant("c03_getdefault_shared_box", "C03")
def _(m):
    patch_method(m["RankAttrs"], "getDefault", "            return Payload(value)", "            return self._default")


@mutant("c03_posref_returns_next", "C03")
def _(m):
    patch_method(m["Fiber"], "getPositionRef", "            self._create_payload(coord)\n",
                 "            self._create_payload(coord)\n            index = min(index + 1, len(self.coords) - 1)\n")


@mutant("c03_getpayloadref_copy", "C03")
def _(m):
    patch_method(m["Fiber"], "getPayloadRef", "        assert Payload.is_payload(payload)\n\n        return payload",
                 "        assert Payload.is_payload(payload)\n\n        return Payload(payload.value) if len(self.coords) > 3 else payload")


@mutant("c03_getposition_startpos_off", "C03")
def _(m):
    patch_method(m["Fiber"], "getPosition", "index = self._coord2pos(coord, start_pos=start_pos)",
                 "index = self._coord2pos(coord, start_pos=(start_pos + 1 if start_pos else start_pos))")


# ------------------------------------------------------------------------------- C05
@mutant("c05_apos_not_decremented", "C05")
def _(m):
    patch_modfunc(m["iterators"], "__lshift__", "                    a_pos -= 1\n                    self.a_fiber.setSavedPos(a_pos)",
                  "                    self.a_fiber.setSavedPos(a_pos)", also=(m["Fiber"],))


@mutant("c05_never_removes", "C05")
def _(m):
    patch_modfunc(m["iterators"], "__lshift__", "                    maybe_remove = True\n", "                    maybe_remove = False\n",
                  also=(m["Fiber"],))


@mutant("c05_yield_copy", "C05")
def _(m):
    patch_modfunc(m["iterators"], "__lshift__", "                yield b_coord, (a_payload, b_payload)",
                  "                yield b_coord, ((Payload(a_payload.value) if isinstance(a_payload, Payload) and b_pos == 2 else a_payload), b_payload)",
                  also=(m["Fiber"],))


@mutant("c05_source_occupancy_always", "C05")
def _(m):
    patch_modfunc(m["iterators"], "__lshift__", "b = self.b_fiber.__iter__(tick=False)",
                  "b = self.b_fiber.iterOccupancy(tick=False)", also=(m["Fiber"],))


@mutant("c05_no_pop", "C05")
def _(m):
    patch_modfunc(m["iterators"], "__lshift__", "popped = self.a_fiber.getOwner().getNextRank().pop()",
                  "popped = a_payload", also=(m["Fiber"],))


@mutant("c05_skips_last_when_z_longer", "C05")
def _(m):
    patch_modfunc(m["iterators"], "__lshift__", "            for b_pos, (b_coord, b_payload) in enumerate(b):\n",
                  "            for b_pos, (b_coord, b_payload) in enumerate(b):\n"
                  "                if b_pos >= 3 and len(self.a_fiber.coords) > 4:\n                    break\n",
                  also=(m["Fiber"],))


# ------------------------------------------------------------------------------- C10
@mutant("c10_split_no_deepcopy", "C10")
def _(m):
    patch_method(m["Fiber"], "_splitGeneric", "copy.deepcopy(self)", "self")


@mutant("c10_updatepayloads_in_place", "C10")
def _(m):
    patch_method(m["Tensor"], "updatePayloads", "new_tensor = copy.deepcopy(self)", "new_tensor = self")


@mutant("c10_getpayload_inserts", "C10")
def _(m):
    patch_method(m["Fiber"], "getPayload", "payload = self._createDefault(addtorank=False)",
                 "payload = self._create_payload(coord0)")


@mutant("c10_fiber2dict_clears_zeros", "C10")
def _(m):
    patch_method(m["Fiber"], "countValues", "    def countValues(self, recursive=True):\n",
                 "    def countValues(self, recursive=True):\n        if self.payloads and isinstance(self.payloads[0], Payload) and self.payloads[0].value == 0:\n            del self.coords[0]; del self.payloads[0]\n")


@mutant("c10_setroot_adopts_owned", "C10")
def _(m):
    patch_method(m["Tensor"], "setRoot", "if root.getOwner() is not None:", "if False:")


@mutant("c10_swizzle_same_shares", "C10")
def _(m):
    patch_method(m["Tensor"], "swizzleRanks", "copied = copy.deepcopy(self)", "copied = copy.copy(self)")


@mutant("c10_eq_adds_to_rank", "C10")
def _(m):
    patch_modfunc(m["iterators"], "__or__", "self.b_fiber._createDefault(addtorank=False)",
                  "self.b_fiber._createDefault()", count=2, also=(m["Fiber"],))


# ------------------------------------------------------------------------------- C06
@mutant("c06_and_drops_last_match", "C06")
def _(m):
    patch_modfunc(m["iterators"], "__and__", "            while a_coord is not None and b_coord is not None:\n                if a_coord == b_coord:\n",
                  "            while a_coord is not None and b_coord is not None:\n                if a_coord == b_coord and not (isinstance(a_coord, int) and a_coord == 3 and len(self.a_fiber.coords) > 2):\n",
                  also=(m["Fiber"],)) if False else patch_modfunc(
        m["iterators"], "__and__", "                if a_coord > b_coord:\n", "                if a_coord > b_coord and b_coord != 2:\n                    a_coord, a_payload = _get_next(a)\n                    continue\n\n                if a_coord > b_coord:\n",
        also=(m["Fiber"],))


@mutant("c06_payload_iadd_ignores_zero_old", "C06")
def _(m):
    patch_method(m["Payload"], "__iadd__", "            self.value = self.value + other.value", "            self.value = (self.value if self.value != 3 else 0) + other.value")


@mutant("c06_split_drops_element", "C06")
def _(m):
    patch_method(m["Fiber"], "splitUniform", "                    if c >= active_end + self.post_halo:\n                        break\n",
                 "                    if c >= active_end + self.post_halo:\n                        break\n                    if self.step == 2 and c % 4 == 3:\n                        continue\n")


@mutant("c06_swizzle_loses_last_leaf", "C06")
def _(m):
    patch_method(m["Tensor"], "swizzleRanks", "        coords.sort(reverse=True)\n", "        coords.sort(reverse=True)\n        if len(coords) > 5:\n            coords = coords[1:]\n")


# ------------------------------------------------------------------------------- C13
@mutant("c13_fromrandom_ignores_seed", "C13")
def _(m):
    patch_method(m["Fiber"], "fromRandom", "if seed is not None:", "if False:")


@mutant("c13_fromrandom_seeds_top_level_only_when_deep", "C13")
def _(m):
    patch_method(m["Fiber"], "fromRandom", "if seed is not None:", "if seed is not None and len(shape) < 3:")


# (a dump that opens its file in append mode is NOT a usable mutant: yaml.safe_load lets the last of
#  duplicate keys win, so [older dump][new dump] and even most [torn dump][new dump] files load as the new dump)
@mutant("c13_dump_not_closed", "C13")
def _(m):
    patch_method(m["Tensor"], "dump", "        with open(filename, 'w') as file:\n            yaml.dump(tensor_dict, file)",
                 "        file = open(filename, 'w')\n        yaml.dump(tensor_dict, file)")


@mutant("c13_fromyaml_drops_shape", "C13")
def _(m):
    patch_method(m["Tensor"], "fromYAMLfile", "return Tensor.fromFiber(rank_ids, root, shape=shape, name=name)",
                 "return Tensor.fromFiber(rank_ids, root, shape=None, name=name)")


# ------------------------------------------------------------------------------- C15
@mutant("c15_begincollect_keeps_fiber_label", "C15")
def _(m):
    patch_method(m["Metrics"], "beginCollect", "        cls.fiber_label = {}\n", "")
    patch_method(m["Metrics"], "registerRank", "        cls.fiber_label[rank] = 0\n", "        cls.fiber_label.setdefault(rank, 0)\n")


@mutant("c15_begincollect_keeps_metrics", "C15")
def _(m):
    patch_method(m["Metrics"], "beginCollect", "        cls.metrics = {}\n", "        cls.metrics = cls.metrics if cls.collecting and cls.metrics else {}\n")


@mutant("c15_mul_counted_twice_for_payload_operand", "C15")
def _(m):
    patch_method(m["Payload"], "__mul__", '            Metrics.incCount("Compute", "payload_mul", 1)',
                 '            Metrics.incCount("Compute", "payload_mul", 2 if isinstance(other, Payload) and other.value == 3 else 1)')


@mutant("c15_iadd_add_counted_when_old_zero", "C15")
def _(m):
    patch_method(m["Payload"], "__iadd__", "            if old != 0:", "            if True:")


@mutant("c15_lshift_differs_when_collecting", "C15")
def _(m):
    patch_modfunc(m["iterators"], "__lshift__", "                    a_pos -= 1\n                    self.a_fiber.setSavedPos(a_pos)",
                  "                    a_pos -= (0 if is_collecting and b_pos == 1 else 1)\n                    self.a_fiber.setSavedPos(a_pos)",
                  also=(m["Fiber"],))


@mutant("c15_numiters_counts_header", "C15")
def _(m):
    import fibertree.model.compute as C
    patch_method(C.Compute, "numIters", "            f.readline()\n\n            iters = 0", "            iters = 0")


@mutant("c15_endcollect_keeps_num_traces", "C15")
def _(m):
    patch_method(m["Metrics"], "beginCollect", "        cls.traces = {}\n", "        cls.traces = {} if not cls.collecting else cls.traces\n")


# ------------------------------------------------------------------------------- C16
@mutant("c16_writetrace_keeps_buffer", "C16")
def _(m):
    patch_method(m["Metrics"], "_writeTrace", "        cls.traces[rank][type_] = ([], mem_trace, True)", "        cls.traces[rank][type_] = (file_trace, mem_trace, True)")


@mutant("c16_flush_loses_row_at_boundary", "C16")
def _(m):
    patch_method(m["Metrics"], "addUse", "        if file_trace is not None:\n            file_trace.append(data)\n",
                 "        if file_trace is not None and not (len(file_trace) == 6 and cls.num_cached_uses == 7):\n            file_trace.append(data)\n")


@mutant("c16_stamp_one_rank_short", "C16")
def _(m):
    patch_method(m["Metrics"], "addUse", "        iteration = iteration_num[:(i + 1)]", "        iteration = iteration_num[:i] + [0] if i >= 2 else iteration_num[:(i + 1)]")


@mutant("c16_iterrange_reports_j", "C16")
def _(m):
    patch_modfunc(m["iterators"], "iterRange", "                    Metrics.addUse(rank, coord, i + j)", "                    Metrics.addUse(rank, coord, j if j > 2 else i + j - (1 if coord == 3 else 0))",
                  also=(m["Fiber"],))


@mutant("c16_header_full_loop_order", "C16")
def _(m):
    patch_method(m["Metrics"], "_startTrace", "        headings = list(r + \"_pos\" for r in cls.loop_order[:end]) + \\\n            cls.loop_order[:end] + [\"fiber_pos\"]",
                 "        headings = list(r + \"_pos\" for r in cls.loop_order[:end]) + \\\n            cls.loop_order[:end] + [\"fiber_pos\"]\n        if end == 3:\n            headings = headings[1:]")


@mutant("c16_and_bpos_not_advanced_on_skip", "C16")
def _(m):
    patch_modfunc(m["iterators"], "__and__", "                if a_coord > b_coord:\n                    if b_traced:\n                        Metrics.addUse(rank, b_coord, _trace_pos(self.b_fiber, b_coord, b_pos), type_=b_trace)\n                        b_pos += 1",
                  "                if a_coord > b_coord:\n                    if b_traced and b_coord != 1:\n                        Metrics.addUse(rank, b_coord, _trace_pos(self.b_fiber, b_coord, b_pos), type_=b_trace)\n                        b_pos += 1",
                  also=(m["Fiber"],))


@mutant("c16_consume_returns_copy_keeps_rows", "C16")
def _(m):
    patch_method(m["Metrics"], "consumeTrace", "        cls.traces[rank][type_] = (file_trace, [], is_started)", "        cls.traces[rank][type_] = (file_trace, mem_trace[-1:] if len(mem_trace) > 4 else [], is_started)")


# ------------------------------------------------------------------------------- C17
@mutant("c17_window_one_rank_short", "C17")
def _(m):
    patch_method(m["traffic"].Traffic, "buffetTraffic", "                evict_end = order.index(loop_ranks[evict_on]) + 1", "                evict_end = order.index(loop_ranks[evict_on])")


@mutant("c17_staging_test_le", "C17")
def _(m):
    patch_method(m["traffic"].Traffic, "_bufferTraffic", "trace[num_ranks * 2] < shapes[i])", "trace[num_ranks * 2] <= shapes[i])")


@mutant("c17_remove_skipped", "C17")
def _(m):
    patch_method(m["traffic"].Traffic, "_bufferTraffic", "        for fn in next_use_traces.values():\n            os.remove(fn)", "        for fn in list(next_use_traces.values())[1:]:\n            os.remove(fn)")


@mutant("c17_min_evicts_nearest", "C17")
def _(m):
    patch_method(m["traffic"].Traffic, "cacheTraffic", "                    evict_elem = next_evict.pop(-1)", "                    evict_elem = next_evict.pop(0 if len(next_evict) > 2 else -1)")


@mutant("c17_filter_drops_last_match", "C17")
def _(m):
    patch_method(m["traffic"].Traffic, "filterTrace", "            while line_in and line_fil:", "            while line_in and line_fil and not (data_in and data_in[-1] == 3 and len(data_in) > 1):")


@mutant("c17_combine_write_first_on_tie", "C17")
def _(m):
    patch_method(m["traffic"].Traffic, "_combineTraces", "                if write_line[0] < read_line[0]:", "                if write_line[0] <= read_line[0] and write_line[1]:")


@mutant("c17_handle_left_open", "C17")
def _(m):
    patch_method(m["traffic"].Traffic, "_bufferTraffic", "        for file_ in traces.values():\n            file_.close()", "        for file_ in list(traces.values())[1:]:\n            file_.close()")


# ------------------------------------------------------------------------------- C19
@mutant("c19_twofinger_zip_fibers", "C19")
def _(m):
    I = m["intersect"]
    patch_method(I.TwoFingerIntersector, "addTraces", "            coords1 = fibers1.get(fiber, [])", "            coords1 = list(fibers1.values())[list(fibers0).index(fiber)] if len(fibers1) > list(fibers0).index(fiber) else []")


@mutant("c19_skipahead_run_counted_twice_after_match", "C19")
def _(m):
    I = m["intersect"]
    patch_method(I.SkipAheadIntersector, "addTraces", "                    self.num_intersects += 1\n                    curr = None\n", "                    self.num_intersects += 1\n                    curr = 0 if i0 > 2 else None\n")


@mutant("c19_leaderfollower_header_every_call", "C19")
def _(m):
    I = m["intersect"]
    patch_method(I.LeaderFollowerIntersector, "addTraces", "        if not self.started:", "        if True:")


@mutant("c19_numswaps_single_list_free", "C19")
def _(m):
    C = m["compute"]
    patch_method(C.Compute, "_merge", "        # Otherwise, merge incrementally", "        if len(coords) == 1:\n            return 0, coords[0]\n        # Otherwise, merge incrementally")


@mutant("c19_and_no_pending_row_changes_total", "C19")
def _(m):
    I = m["intersect"]
    patch_method(I.TwoFingerIntersector, "addTraces", "            while i0 < len(coords0) and i1 < len(coords1):\n                self.num_intersects += 1",
                 "            while i0 < len(coords0) and i1 < len(coords1):\n                self.num_intersects += (0 if coords0[i0] == coords1[i1] == 4 else 1)")


# ------------------------------------------------------------------------------- round-4 oracles
@mutant("c10_getactive_remembers_estimate", "C10")
def _(m):
    patch_method(m["Fiber"], "getActive", "    start = Fiber._transCoord(shape, lambda c: 0)\n    return (start, shape)",
                 "    start = Fiber._transCoord(shape, lambda c: 0)\n    if not self.getRankAttrs().getShape():\n        self.setActive((start, shape))\n    return (start, shape)")


@mutant("c05_getactive_remembers_estimate", "C05")
def _(m):
    patch_method(m["Fiber"], "getActive", "    start = Fiber._transCoord(shape, lambda c: 0)\n    return (start, shape)",
                 "    start = Fiber._transCoord(shape, lambda c: 0)\n    if not self.getRankAttrs().getShape():\n        self.setActive((start, shape))\n    return (start, shape)")


@mutant("c10_copy_keeps_operand_ranks_as_owner", "C10")
def _(m):
    import copy as _copy
    F = m["Fiber"]

    def copy(self, preserve_owner=True):
        """Deep copying that allows the owner to not be copied"""
        owners = self._detach_owner()
        copied = _copy.deepcopy(self)
        self._attach_owner(owners)
        if preserve_owner:
            copied._attach_owner(owners)
        else:
            copied._attach_attrs(owners)
        return copied
    F.copy = copy


@mutant("c15_lshift_start_pos_zero_is_none", "C15")
def _(m):
    it = m["iterators"]
    patch_modfunc(it, "__lshift__", "                if self.spec_pos is not None:\n                    self.a_fiber.setSavedPos(a_pos - 1)",
                  "                if self.spec_pos:\n                    self.a_fiber.setSavedPos(a_pos - 1)", also=(m["Fiber"],))


@mutant("c15_split_by_fiber_ticks", "C15")
def _(m):
    patch_method(m["Fiber"], "splitNonUniform", "        splits = splits.getCoords()", "        splits = [c for c, _ in splits]")


@mutant("c17_cache_below_one_line_holds_nothing", "C17")
def _(m):
    T = m["traffic"]
    patch_method(T.Traffic, "cacheTraffic",
                 "        if occupancy + line_sz <= capacity:\n            to_buffer = True",
                 "        if capacity < line_sz:\n            to_buffer = False\n        elif occupancy + line_sz <= capacity:\n            to_buffer = True")


@mutant("c19_unbounded_merge_not_resorted", "C19")
def _(m):
    C = m["compute"]
    patch_method(C.Compute, "_merge", "    merged.sort()\n\n    return compares, merged", "    return compares, merged")


@mutant("c13_dict2fiber_tuples_top_level_only", "C13")
def _(m):
    patch_method(m["Fiber"], "fiber2dict", "{'coords': self.coords,",
                 "{'coords': [(lambda f, c: f(f, c))(lambda f, c: [f(f, x) for x in c] if isinstance(c, tuple) else c, c) for c in self.coords],")
    patch_method(m["Fiber"], "dict2fiber", "        f_coords = y_fiber['coords']",
                 "        f_coords = [tuple(c) if isinstance(c, list) else c for c in y_fiber['coords']]")


# ------------------------------------------------------------------------------- round-5 oracles
@mutant("c15_numiters_remembered_per_path", "C15")
def _(m):
    C = m["compute"].Compute
    orig = C.__dict__["numIters"].__func__
    memo = {}

    def numIters(trace):
        if trace not in memo:
            memo[trace] = orig(trace)
        return memo[trace]
    C.numIters = staticmethod(numIters)


@mutant("c15_add_not_counted_for_zero_left_operand", "C15")
def _(m):
    patch_method(m["Payload"], "__add__", "    if Metrics.isCollecting():\n        Metrics.incCount(\"Compute\", \"payload_add\", 1)",
                 "    if Metrics.isCollecting() and self.value != 0:\n        Metrics.incCount(\"Compute\", \"payload_add\", 1)")


@mutant("c15_numops_needs_compute_entry", "C15")
def _(m):
    patch_method(m["compute"].Compute, "numOps", "    if \"Compute\" in dump and metric in dump[\"Compute\"]:", "    if metric in dump[\"Compute\"]:")


@mutant("c16_iterrange_start_offset_twice", "C16")
def _(m):
    it = m["iterators"]
    patch_modfunc(it, "iterRange", "                    Metrics.addUse(rank, coord, i + j)", "                    Metrics.addUse(rank, coord, i + i + j)", also=(m["Fiber"],))


@mutant("c16_getpayloadref_untraced_use_dropped", "C16")
def _(m):
    patch_method(m["Fiber"], "getPayloadRef", "    if Metrics.isCollecting():\n        Metrics.addUse(self.getRankAttrs().getId(), coords[0], index, type_=trace)",
                 "    if Metrics.isCollecting() and trace is not None:\n        Metrics.addUse(self.getRankAttrs().getId(), coords[0], index, type_=trace)")


@mutant("c16_project_position_counts_delivered_elements", "C16")
def _(m):
    patch_method(m["Fiber"], "project", "                        if pos is None:\n                            pos = i + j", "                        pos = i + j")


@mutant("c16_project_interval_end_leaves_iteration_open", "C16")
def _(m):
    patch_method(m["Fiber"], "project", "                    if is_collecting and self.tck:\n                        Metrics.endIter(src_rank)", "                    pass")


@mutant("c17_elem_of_uncompressed_rank_is_payload_only", "C17")
def _(m):
    F = m["traffic"].Format if hasattr(m["traffic"], "Format") else __import__("fibertree.model.format", fromlist=["Format"]).Format
    patch_method(F, "getElem", "    elif type_ == \"elem\":\n        return self.spec[rank][\"cbits\"] + self.spec[rank][\"pbits\"]",
                 "    elif type_ == \"elem\":\n        if self.spec[rank][\"format\"] == \"U\":\n            return self.spec[rank][\"pbits\"]\n        return self.spec[rank][\"cbits\"] + self.spec[rank][\"pbits\"]")


@mutant("c02_format_rank_footprint_remembered_by_fiber_count", "C02")
def _(m):
    F = __import__("fibertree.model.format", fromlist=["Format"]).Format
    orig = F.getRank

    def getRank(self, rank_id):
        memo = self.__dict__.setdefault("_rank_footprint", {})
        i = self.tensor.getRankIds().index(rank_id)
        n = len(self.tensor.ranks[i].getFibers())
        if rank_id in memo and memo[rank_id][0] == n:
            return memo[rank_id][1]
        v = orig(self, rank_id)
        memo[rank_id] = (n, v)
        return v
    F.getRank = getRank


@mutant("c01_ilshift_appends_in_arrival_order", "C01")
def _(m):
    patch_method(m["Fiber"], "__ilshift__", "        ref = self.getPayloadRef(c)", "        ref = self._create_payload(c, pos=len(self.coords))")


@mutant("c05_untouched_test_compares_with_zero", "C05")
def _(m):
    it = m["iterators"]
    patch_modfunc(it, "__lshift__", "                        a_payload == self.a_fiber.getDefault()):", "                        a_payload == 0):", also=(m["Fiber"],))


@mutant("c06_swizzle_remembered_for_immutable_tensors", "C06")
def _(m):
    import copy as _copy
    T = m["Tensor"]
    orig = T.swizzleRanks

    def swizzleRanks(self, rank_ids):
        memo = self.__dict__.setdefault("_swizzled", {})
        key = tuple(rank_ids)
        if not self.isMutable() and key in memo:
            return _copy.deepcopy(memo[key])
        r = orig(self, rank_ids)
        if not self.isMutable():
            memo[key] = _copy.deepcopy(r)
        return r
    T.swizzleRanks = swizzleRanks


@mutant("c10_swizzle_remembered_for_immutable_tensors", "C10")
def _(m):
    MUTANTS["c06_swizzle_remembered_for_immutable_tensors"][1](m)


@mutant("c10_colour_map_dropped_when_round_robin_wraps", "C10")
def _(m):
    IU = __import__("fibertree.graphics.image_utils", fromlist=["ImageUtils"]).ImageUtils
    patch_method(IU, "getColor", "    ImageUtils.hl_next = (hl_next + 1) % len(hl_colors)",
                 "    ImageUtils.hl_next = (hl_next + 1) % len(hl_colors)\n    if ImageUtils.hl_next == 0:\n        ImageUtils.hl_map = {}")


# ------------------------------------------------------------------------------- round-6 oracles
@mutant("c03_maybe_box_exact_types_only", "C03")
def _(m):
    patch_method(m["Payload"], "maybe_box", "    if isinstance(value, (bool, float, int, str, tuple, frozenset)):",
                 "    if type(value) in (bool, float, int, str, tuple, frozenset):")


@mutant("c16_consumetrace_hands_out_live_buffer_when_empty", "C16")
def _(m):
    patch_method(m["Metrics"], "consumeTrace", "    cls.traces[rank][type_] = (file_trace, [], is_started)",
                 "    if len(mem_trace) == 0:\n        return mem_trace\n    cls.traces[rank][type_] = (file_trace, [], is_started)")


@mutant("c16_matchranks_rank_matched_with_itself", "C16")
def _(m):
    patch_method(m["Metrics"], "matchRanks", "        cls.all_rank_matches[rank] = all_matches.difference({rank})",
                 "        cls.all_rank_matches[rank] = set(all_matches) if rank1 == rank2 else all_matches.difference({rank})")


@mutant("c15_begincollect_clears_report_in_place", "C15")
def _(m):
    patch_method(m["Metrics"], "beginCollect", "    cls.metrics = {}", "    cls.metrics = {} if cls.metrics is None else (cls.metrics.clear() or cls.metrics)")


@mutant("c13_parse_rank_ids_as_strings", "C13")
def _(m):
    patch_method(m["Tensor"], "parse", "    rank_ids = y_tensor['rank_ids']", "    rank_ids = [str(r) for r in y_tensor['rank_ids']]")


@mutant("c13_parse_rejects_falsy_root", "C13")
def _(m):
    patch_method(m["Tensor"], "parse", "    y_root = y_tensor['root']\n",
                 "    y_root = y_tensor['root']\n    if not isinstance(y_root, list) or not y_root or not y_root[0]:\n        print(\"Yaml has an empty root\")\n        exit(1)\n")


@mutant("c01_getpayloadref_position_is_coordinate_on_u_ranks", "C01")
def _(m):
    patch_method(m["Fiber"], "getPayloadRef", [
        ("    index = self._coord2pos(coords[0], start_pos=start_pos)",
         "    if start_pos is None and isinstance(coords[0], int) and self.getRankAttrs().getFormat() == \"U\":\n        index = min(coords[0], len(self.coords))\n    else:\n        index = self._coord2pos(coords[0], start_pos=start_pos)"),
        ("        payload = self._create_payload(coords[0])", "        payload = self._create_payload(coords[0], pos=index)")], None)


@mutant("c02_insertorlookup_creates_default_before_lookup", "C02")
def _(m):
    patch_method(m["Fiber"], "insertOrLookup", "        if coord in self.coords:\n            return self.payloads[self.coords.index(coord)]\n", "")


@mutant("c05_fiber_iadd_onto_empty_row_extends", "C05")
def _(m):
    patch_method(m["Fiber"], "__iadd__", "    if isinstance(other, Fiber):\n", "    if isinstance(other, Fiber):\n        if len(self.coords) == 0 and not other.isLazy():\n            self.extend(other)\n            return self\n")


@mutant("c06_swizzle_to_own_order_returns_self", "C06")
def _(m):
    T = m["Tensor"]
    orig = T.swizzleRanks

    def swizzleRanks(self, rank_ids):
        if self.getRankIds() == rank_ids:
            return self
        return orig(self, rank_ids)
    T.swizzleRanks = swizzleRanks


# ------------------------------------------------------------------------------- round-7 oracles (history-dependent)
@mutant("c10_dump_names_the_tensor_after_the_file", "C10")
def _(m):
    import os as _os
    T = m["Tensor"]
    orig = T.dump

    def dump(self, filename):
        if not self.getName():
            self.setName(_os.path.splitext(_os.path.basename(str(filename)))[0])
        return orig(self, filename)
    T.dump = dump


@mutant("c13_fiber2dict_remembered_per_fiber", "C13")
def _(m):
    F = m["Fiber"]
    orig = F.fiber2dict

    def fiber2dict(self):
        memo = self.__dict__.get("_as_dict")
        if memo is not None and memo[0] == (len(self.coords), tuple(map(repr, self.coords))):
            return memo[1]
        d = orig(self)
        self.__dict__["_as_dict"] = ((len(self.coords), tuple(map(repr, self.coords))), d)
        return d
    F.fiber2dict = fiber2dict


@mutant("c15_rank_name_remembered_on_the_fiber", "C15")
def _(m):
    it = m["iterators"]
    patch_modfunc(it, "_prep_metrics_inc", "    rank = str(fiber.getRankAttrs().getId())",
                  "    try:\n        rank = fiber._loop_rank\n    except AttributeError:\n        rank = fiber._loop_rank = str(fiber.getRankAttrs().getId())")


@mutant("c16_trace_position_index_kept_per_operand", "C16")
def _(m):
    it = m["iterators"]
    patch_modfunc(it, "_trace_pos", "    try:\n        pos = fiber.getPosition(coord)\n    except TypeError:\n        pos = None",
                  "    idx = fiber.__dict__.get(\"_coord_index\")\n    if idx is None:\n        try:\n            idx = fiber.__dict__[\"_coord_index\"] = {c: i for i, c in enumerate(fiber.coords)}\n        except TypeError:\n            idx = {}\n    pos = idx.get(coord) if not isinstance(coord, list) else None")


@mutant("c17_format_element_footprints_fixed_at_construction", "C17")
def _(m):
    F = __import__("fibertree.model.format", fromlist=["Format"]).Format
    oinit, oget = F.__init__, F.getElem

    def __init__(self, tensor, spec):
        oinit(self, tensor, spec)
        self._elem = {(r, t): oget(self, r, t) for r in tensor.getRankIds() for t in ("coord", "payload", "elem")}

    def getElem(self, rank, type_):
        return self._elem[(rank, type_)] if (rank, type_) in getattr(self, "_elem", {}) else oget(self, rank, type_)
    F.__init__, F.getElem = __init__, getElem


@mutant("c19_iterrange_returns_past_the_end", "C19")
def _(m):
    it = m["iterators"]
    patch_modfunc(it, "iterRange", "        if end is not None and coord >= end:\n            break", "        if end is not None and coord >= end:\n            return",
                  also=(m["Fiber"],))


@mutant("c06_plain_loop_leaves_a_saved_position", "C06")
def _(m):
    it = m["iterators"]
    patch_modfunc(it, "iterRange", "                if start_pos is not None:\n                    self.setSavedPos(i + j, distance=j)",
                  "                if start_pos is not None or (tick and not self.isLazy()):\n                    self.setSavedPos(i + j, distance=j)",
                  also=(m["Fiber"],))


# ------------------------------------------------------------------------------- round-8/9 oracles
@mutant("c15_dump_snapshot_survives_begincollect", "C15")
def _(m):
    M = m["Metrics"]
    odump, oinc = M.__dict__["dump"].__func__, M.__dict__["incCount"].__func__
    state = {"report": None}

    def dump(cls):
        if cls.metrics is None:
            return None
        if state["report"] is None:
            state["report"] = {k: dict(v) for k, v in cls.metrics.items()}
        return state["report"]

    def incCount(cls, line, metric, inc):
        oinc(cls, line, metric, inc)
        state["report"] = None
    M.dump, M.incCount = classmethod(dump), classmethod(incCount)


@mutant("c16_adduse_returns_before_point_update_when_untraced", "C16")
def _(m):
    patch_method(m["Metrics"], "addUse", "    # Update the point\n", "    if not cls.traces:\n        return\n    # Update the point\n")


@mutant("c17_buffet_pops_evict_on_from_the_binding", "C17")
def _(m):
    T = m["traffic"].Traffic
    patch_method(T, "buffetTraffic", "binding[\"evict-on\"]", "binding.pop(\"evict-on\", \"root\")")


@mutant("c13_dict2fiber_decodes_in_place", "C13")
def _(m):
    patch_method(m["Fiber"], "dict2fiber",
                 "        f_payloads = []\n        for y_f_payload in y_f_payloads:\n            f_payloads.append(Fiber.dict2fiber(y_f_payload, level + 1))",
                 "        for i_, y_f_payload in enumerate(y_f_payloads):\n            y_f_payloads[i_] = Fiber.dict2fiber(y_f_payload, level + 1)\n        f_payloads = y_f_payloads")


@mutant("c03_setitem_stores_before_it_checks", "C03")
def _(m):
    MUTANTS["c01_setitem_write_before_right_check"][1](m)


@mutant("c06_append_checks_order_after_storing", "C06")
def _(m):
    patch_method(m["Fiber"], "append", [
        ("    if self._ordered:\n        assert self.maxCoord() is None or self.maxCoord() < coord, \\\n               \"Fiber coordinates in 'ordered' fibers must be monotonically increasing\"\n", ""),
        ("    self.payloads.append(payload)\n",
         "    self.payloads.append(payload)\n    if self._ordered:\n        assert len(self.coords) < 2 or self.coords[-2] < coord, \\\n               \"Fiber coordinates in 'ordered' fibers must be monotonically increasing\"\n")], None)


@mutant("c05_default_remembered_on_the_fiber", "C05")
def _(m):
    F = m["Fiber"]
    orig = F.getDefault

    def getDefault(self):
        if self.getOwner() is None:
            return orig(self)
        memo = self.__dict__.get("_default_memo")
        if memo is None or memo[0] is not self.getOwner():
            memo = self.__dict__["_default_memo"] = (self.getOwner(), orig(self))
        return memo[1]
    F.getDefault = getDefault


@mutant("c10_float_default_handed_out_as_the_stored_box", "C10")
def _(m):
    patch_method(m["RankAttrs"], "getDefault", "    return deepcopy(self._default)",
                 "    if isinstance(value, (float, str)):\n        return self._default\n    return deepcopy(self._default)")


@mutant("c19_leaderfollower_arity_checked_after_start", "C19")
def _(m):
    I = m["intersect"]
    patch_method(I.LeaderFollowerIntersector, "addTraces", [
        ("    assert len(traces) == 1\n", ""),
        ("    self.num_intersects += new_intersects", "    assert len(traces) == 1\n    self.num_intersects += new_intersects")], None)


@mutant("c16_endcollect_stops_collecting_even_when_rejected", "C16")
def _(m):
    M = m["Metrics"]
    orig = M.__dict__["endCollect"].__func__

    def endCollect(cls):
        try:
            return orig(cls)
        except AssertionError:
            cls.collecting = False
            cls.traces = {}
            raise
    M.endCollect = classmethod(endCollect)


# ------------------------------------------------------------------------------- round-10 oracles (class-level state, edges)
@mutant("c10_colour_cycle_not_rewound_by_reset", "C10")
def _(m):
    import itertools
    IU = __import__("fibertree.graphics.image_utils", fromlist=["ImageUtils"]).ImageUtils
    cyc = {"it": itertools.cycle(IU.hl_colors)}

    def getColor(worker):
        if worker in IU.hl_map:
            return IU.hl_map[worker]
        color = next(cyc["it"])
        IU.hl_map[worker] = color
        return color
    IU.getColor = staticmethod(getColor)


@mutant("c19_entry_layout_shared_by_all_models", "C19")
def _(m):
    I = m["intersect"]
    I.Intersector.columns = {}
    patch_method(I.Intersector, "_startTraces", "        self.num_ranks = (len(trace0[0]) - 1) // 2",
                 "        self.num_ranks = (len(trace0[0]) - 1) // 2\n        self.columns[\"n\"] = self.num_ranks")
    patch_method(I.Intersector, "_splitFibers", "    fibers = {}", "    self.num_ranks = self.columns.get(\"n\", self.num_ranks)\n    fibers = {}")


@mutant("c19_headers_removed_from_the_callers_batch", "C19")
def _(m):
    I = m["intersect"]
    patch_method(I.Intersector, "_startTraces", "        trace0 = trace0[1:]\n        trace1 = trace1[1:]", "        del trace0[0]\n        del trace1[0]")


@mutant("c15_begincollect_removes_files_by_prefix_glob", "C15")
def _(m):
    import glob as _glob, os as _os
    M = m["Metrics"]
    orig = M.__dict__["beginCollect"].__func__

    def beginCollect(cls, prefix=None):
        if prefix is not None:
            for fn in _glob.glob(_glob.escape(prefix) + "-*.csv"):
                try:
                    _os.remove(fn)
                except OSError:
                    pass
        return orig(cls, prefix)
    M.beginCollect = classmethod(beginCollect)


@mutant("c15_numops_empty_report_means_current", "C15")
def _(m):
    C = m["compute"].Compute
    orig = C.__dict__["numOps"].__func__

    def numOps(dump, op):
        if not dump:
            dump = m["Metrics"].dump() or {}
        return orig(dump, op)
    C.numOps = staticmethod(numOps)


@mutant("c13_fromrandom_memo_ignores_default", "C13")
def _(m):
    import copy as _copy
    F = m["Fiber"]
    orig = F.__dict__["fromRandom"].__func__
    memo = {}

    def fromRandom(cls, shape, density, interval=10, seed=None, default=0):
        if seed is None:
            return orig(cls, shape, density, interval, seed=seed, default=default)
        key = (repr(shape), repr(density), interval, seed)
        if key not in memo:
            memo[key] = orig(cls, shape, density, interval, seed=seed, default=default)
        return _copy.deepcopy(memo[key])
    F.fromRandom = classmethod(fromRandom)


@mutant("c06_rank_id_depth_remembered_for_the_process", "C06")
def _(m):
    F = m["Fiber"]
    orig = F._rankid2depth
    memo = {}

    def _rankid2depth(self, rankid):
        if rankid not in memo:
            memo[rankid] = orig(self, rankid)
        return memo[rankid]
    F._rankid2depth = _rankid2depth


@mutant("c03_fiber_imul_scalar_stores_new_boxes", "C03")
def _(m):
    F = m["Fiber"]
    orig = F.__imul__

    def __imul__(self, other):
        if isinstance(other, m["Fiber"]) or not self.payloads or isinstance(self.payloads[0], m["Fiber"]):
            return orig(self, other)
        k = m["Payload"].get(other)
        self.payloads = [m["Payload"](m["Payload"].get(p) * k) for p in self.payloads]
        return self
    F.__imul__ = __imul__


@mutant("c02_detached_fibers_remembered_for_the_process", "C02")
def _(m):
    # round 10: every fiber ever detached is kept in a mutable default list and detached again by every later clear();
    # a detached sub-tree the program still holds and has made the root of a new tensor loses its rank entry
    F = m["Fiber"]

    def _detachDescendants(self, _seen=[]):
        for p in self.payloads:
            if isinstance(p, F):
                p._detachDescendants()
                _seen.append(p)
        for p in _seen:
            owner = p.getOwner()
            if owner is not None:
                owner.remove(p)
    F._detachDescendants = _detachDescendants


# ---- round 11 (interleavings / interruptions; rarely used entry points and options)
@mutant("c05_populate_cleanup_at_the_remembered_position", "C05")
def _(m):
    # the untouched element is deleted where it was created, not looked up again: the body inserted before it meanwhile
    patch_modfunc(m["iterators"], "__lshift__", "index = bisect.bisect_left(self.a_fiber.coords, b_coord)",
                  "index = a_pos", also=(m["Fiber"],))


@mutant("c05_populate_cleanup_forgets_the_start_pos_offset", "C05")
def _(m):
    patch_modfunc(m["iterators"], "__lshift__", "index = bisect.bisect_left(self.a_fiber.coords, b_coord)",
                  "index = bisect.bisect_left(self.a_fiber.coords[(self.spec_pos or 0):], b_coord)", also=(m["Fiber"],))


@mutant("c03_walk_over_snapshots_of_the_element_lists", "C03")
def _(m):
    patch_modfunc(m["iterators"], "iterRange",
                  "        iter_ = ((self.coords[j], self.payloads[j])\n                  for j in range(i, len(self.coords)))",
                  "        iter_ = zip(self.coords[i:], self.payloads[i:])", also=(m["Fiber"],))


@mutant("c03_initial_value_boxed_once_for_all_elements", "C03")
def _(m):
    patch_method(m["Fiber"], "__init__", "payloads = len(coords)*[initial]",
                 "payloads = len(coords)*[Payload.maybe_box(initial)]")


@mutant("c10_rejected_merge_leaves_the_operand_without_owners", "C10")
def _(m):
    F = m["Fiber"]
    orig = F.mergeRanks

    def mergeRanks(self, *a, **k):
        owners = self._detach_owner()
        try:
            r = orig(self, *a, **k)
        except BaseException:
            raise                      # (the owners are put back only on the way out of a successful call)
        self._attach_owner(owners)
        return r
    F.mergeRanks = mergeRanks


@mutant("c13_dump_through_one_descriptor_level_write", "C13")
def _(m):
    import os
    import tempfile
    T = m["Tensor"]
    orig = T.dump

    def dump(self, filename):
        d = os.path.dirname(filename) or "."
        fd0, tmp = tempfile.mkstemp(dir=d, suffix=".full")
        os.close(fd0)
        orig(self, tmp)
        with open(tmp, "rb") as f:
            data = f.read()
        os.remove(tmp)
        fd, scratch = tempfile.mkstemp(dir=d, suffix=".tmp")
        try:
            os.write(fd, data)             # the number of bytes actually written is not looked at
        finally:
            os.close(fd)
        os.replace(scratch, filename)
    T.dump = dump


@mutant("c13_falsy_empty_value_not_registered", "C13")
def _(m):
    patch_method(m["Tensor"], "setRankInfo", "if default != 0:", "if default:")


@mutant("c17_io_error_swallowed_partial_traffic_returned", "C17")
def _(m):
    Tr = m["traffic"].Traffic
    raw = Tr.__dict__["_bufferTraffic"]
    orig = raw.__func__ if isinstance(raw, (staticmethod, classmethod)) else raw

    def _bufferTraffic(*a, **k):
        try:
            return orig(*a, **k)
        except OSError:
            bindings, trace_fns = a[0], a[2]
            return {t: {acc: 0} for (t, _r, _ty, acc) in trace_fns}, 0
    Tr._bufferTraffic = staticmethod(_bufferTraffic) if isinstance(raw, staticmethod) else _bufferTraffic


@mutant("c06_partition_count_tiling_uses_the_occupied_extent", "C06")
def _(m):
    patch_method(m["Fiber"], "__truediv__", "shape = self.getShape(all_ranks=False)", "shape = self.estimateShape(all_ranks=False)")


@mutant("c06_relative_tiles_keep_absolute_active_range", "C06")
def _(m):
    # the defect F23, restated
    patch_method(m["Fiber"], "splitUniform", "            if relativeCoords:\n                # The active range is expressed in the coordinates of the fiber it describes\n                range_start -= part\n                range_end -= part\n", "")


@mutant("c15_dense_walk_ends_its_iteration_when_dropped", "C15")
def _(m):
    # round 11 (C16-Y): the walk's clean-up moved into a finally - it now also runs when a suspended walk of an EARLIER
    # session is dropped in the middle of a later one
    patch_modfunc(m["iterators"], "iterRangeShape",
                  "    for c in range(start, end, step):\n        p = self.getPayload(c)\n        yield CoordPayload(c, p)\n\n"
                  "        if is_collecting and tick:\n            Metrics.incIter(rank)\n\n"
                  "    if is_collecting and tick:\n        Metrics.endIter(rank)",
                  "    try:\n        for c in range(start, end, step):\n            p = self.getPayload(c)\n            yield CoordPayload(c, p)\n\n"
                  "            if is_collecting and tick:\n                Metrics.incIter(rank)\n\n"
                  "    finally:\n        if is_collecting and tick and Metrics.isCollecting():\n            Metrics.endIter(rank)",
                  also=(m["Fiber"],))


@mutant("c15_and_asks_iscollecting_at_every_step", "C15")
def _(m):
    # round 11 (C15-AA): a co-iteration started before beginCollect() starts counting when its body switches collection on
    patch_modfunc(m["iterators"], "__and__", [
        ("            is_collecting = Metrics.isCollecting()\n",
         "            is_collecting = Metrics.isCollecting()\n            rank = self.a_fiber.getRankAttrs().getId()\n"),
        ("                    if is_collecting:\n                        Metrics.incIter(rank)\n\n                    a_coord, a_payload = _get_next(a)",
         "                    if Metrics.isCollecting():\n                        Metrics.incIter(rank)\n\n                    a_coord, a_payload = _get_next(a)"),
        ("                    if is_collecting:\n                        Metrics.incIter(rank)\n\n                    b_coord, b_payload = _get_next(b)",
         "                    if Metrics.isCollecting():\n                        Metrics.incIter(rank)\n\n                    b_coord, b_payload = _get_next(b)"),
        ("            if is_collecting:\n                Metrics.incIter(rank)\n\n            return",
         "            if Metrics.isCollecting():\n                Metrics.incIter(rank)\n\n            return"),
    ], None, also=(m["Fiber"],))


@mutant("c17_evict_on_looked_up_in_the_loop_order_directly", "C17")
def _(m):
    Tr = m["traffic"].Traffic
    patch_method(Tr, "buffetTraffic",
                 "        if evict_on == \"root\":\n            evict_end = 0\n        else:\n            evict_end = order.index(loop_ranks[evict_on]) + 1",
                 "        evict_end = order.index(evict_on) + 1 if evict_on in order else 0")


@mutant("c17_only_bound_traces_cleaned_up", "C17")
def _(m):
    Tr = m["traffic"].Traffic
    patch_method(Tr, "_bufferTraffic", [
        ("    for key, fn in next_use_traces.items():\n        traces[key] = FileReadBackwards(fn)\n",
         "    bound = set((b[\"tensor\"], b[\"rank\"], b[\"type\"]) for b in bindings)\n"
         "    for key, fn in next_use_traces.items():\n        if key in bound:\n            traces[key] = FileReadBackwards(fn)\n"),
        ("    for fn in read_write_traces.values():\n        os.remove(fn)\n\n    for fn in next_use_traces.values():\n        os.remove(fn)\n",
         "    for key in traces:\n        os.remove(read_write_traces[key])\n        os.remove(next_use_traces[key])\n"),
    ], None)


# ---- round 12 (configuration values, second uses)
@mutant("c10_times_one_reuses_the_operands_boxes", "C10")
def _(m):
    F = m["Fiber"]
    orig = F.__mul__

    def __mul__(self, other):
        if not isinstance(other, F) and m["Payload"].get(other) == 1 and self.payloads and not isinstance(self.payloads[0], F):
            r = orig(self, other)
            r.payloads = list(self.payloads)          # "nothing to compute"
            return r
        return orig(self, other)
    F.__mul__ = __mul__


@mutant("c03_imul_zero_clears_the_fiber", "C03")
def _(m):
    F = m["Fiber"]
    orig = F.__imul__

    def __imul__(self, other):
        if not isinstance(other, F) and m["Payload"].get(other) == 0 and self.payloads and not isinstance(self.payloads[0], F):
            self.clear()
            return self
        return orig(self, other)
    F.__imul__ = __imul__


@mutant("c05_populate_object_can_be_walked_once", "C05")
def _(m):
    it = m["iterators"]
    orig = it.__lshift__

    def __lshift__(self, other, *a, **k):
        lazy = orig(self, other, *a, **k)
        cls = type(lazy)
        real_iter = cls.__iter__
        state = {"used": False}

        class Once:
            def __init__(self, inner):
                self.inner = inner

            def __iter__(self):
                if state["used"]:
                    return (x for x in ())
                state["used"] = True
                return iter(self.inner)

            def __getattr__(self, n):
                return getattr(self.inner, n)
        return Once(lazy)
    it.__lshift__ = __lshift__
    m["Fiber"].__lshift__ = __lshift__


@mutant("c16_one_threshold_full_of_rows_per_write", "C16")
def _(m):
    patch_method(m["Metrics"], "_writeTrace", [
        ("    trace_strs = [\",\".join(str(val) for val in line) + \"\\n\" for line in file_trace]",
         "    rest = file_trace[cls.num_cached_uses:]\n    file_trace = file_trace[:cls.num_cached_uses]\n"
         "    trace_strs = [\",\".join(str(val) for val in line) + \"\\n\" for line in file_trace]"),
        ("    cls.traces[rank][type_] = ([], mem_trace, True)", "    cls.traces[rank][type_] = (rest, mem_trace, True)"),
    ], None)


@mutant("c16_lazy_range_walk_numbers_from_its_start", "C16")
def _(m):
    it = m["iterators"]
    orig = it.iterRange

    def iterRange(self, start, end, tick=True, start_pos=None):
        if self.isLazy() and start is not None:
            import itertools
            inner = self.iter

            def trimmed():
                return itertools.dropwhile(lambda cp: cp[0] < start, inner())
            self.iter = trimmed
            try:
                yield from orig(self, start, end, tick=tick, start_pos=start_pos)
            finally:
                self.iter = inner
        else:
            yield from orig(self, start, end, tick=tick, start_pos=start_pos)
    it.iterRange = iterRange
    m["Fiber"].iterRange = iterRange


def apply(name):
    if name not in MUTANTS:
        raise SystemExit(f"unknown mutant {name}; known: {sorted(MUTANTS)}")
    prop, fn = MUTANTS[name]
    fn(_mods())
    print(f"[mutant {name} applied in memory; expected to break {prop}]", file=sys.stderr)
    return prop
