#!/venv/bin/python
"""Rewrite the mutant table of DESIGN.md Appendix C from dst/mutants.py (names only; no library import needed)."""
import re, collections
src = open("/verif/dst/mutants.py").read()
by = collections.OrderedDict()
for name, prop in re.findall(r'@mutant\("([^"]+)",\s*"(C\d\d)"\)', src):
    by.setdefault(prop, []).append(name)
rows = ["| check | in-memory mutants (all caught by the quick check within 40 s) |", "|-------|-------|"]
for prop in sorted(by):
    rows.append(f"| {prop} | " + ", ".join(f"`{n}`" for n in by[prop]) + " |")
p = "/verif/DESIGN.md"
s = open(p).read()
i = s.index("| check | in-memory mutants")
j = i
lines = s[i:].split("\n")
k = 0
while k < len(lines) and lines[k].startswith("|"):
    k += 1
s = s[:i] + "\n".join(rows) + "\n" + "\n".join(lines[k:])
open(p, "w").write(s)
print(sum(len(v) for v in by.values()), "mutants in", len(by), "checks")
