#!/bin/bash
cd /verif   # the full benign re-check: every diff under benign/ against the checks that touch the code it changes
export VERIF_WORKERS=4
r() { d=$1; shift; bash tools/benign_check.sh /verif/benign/$d/patch.diff 30 "$@" 2>&1 | sed "s#^benign/patch.diff#$d#"; }
r b1-A C01 C02 C03 C05 C06 C10
r b1-B C01 C02 C10
r b1-C C01 C02 C10
r b1-D C01 C02 C05 C06
r b2-A C01 C02 C05 C06 C15 C16
r b2-B C06 C10 C02
r b2-C C06 C10 C15
r b2-D C03 C10 C01 C05
r b3-A C15 C16 C19
r b3-B C13 C06
r b3-C C13 C10
r b3-D C06 C16 C19 C15
r b4-A C17
r b4-B C17
r b4-C C19 C16
r b4-D C19
r b5-A C01 C05 C06 C10
r b5-B C10 C03 C02
r b5-C C16 C10 C15
r b5-D C02 C01 C10
r b6-A C17
r b6-B C19 C15
r b6-C C02 C17 C10
r b6-D C10 C15 C06
r b7-A C05 C01 C02 C15 C16 C06
r b7-B C16 C15 C01 C05 C06
r b7-C C15 C03 C06
r b7-D C15 C16 C19
r b8-A C13 C10 C02
r b8-B C19 C16
r b8-C C02 C01 C10 C05
r b8-D C10
r b9-A C01 C02 C03
r b9-B C05 C10 C01 C15
r b9-C C03 C15 C06 C01
r b9-D C06 C10 C02
r b10-A C17
r b10-B C10
r b10-C C02 C10 C17
r b10-D C13 C02 C10
echo ALLDONE
