#!/bin/bash
# usage: seeded_all.sh <PROP> [budget]  -- confirm + detect both mutations of an agent's worktree
P=$1; B=${2:-50}
for x in A B; do
  echo "== $P mutation $x"
  /venv/bin/python /verif/tools/seeded.py confirm /tmp/wt_$P /tmp/wt_$P/_seeded/mutation$x.diff /tmp/wt_$P/_seeded/demo$x.py | tr '\n' ' ' | cut -c1-330; echo
  /venv/bin/python /verif/tools/seeded.py detect $P /tmp/wt_$P/_seeded/mutation$x.diff $B | tail -4
done
