#!/bin/bash
# usage: seeded_all.sh <PROP> [budget] [worktree-prefix] [letters]  -- confirm + detect the mutations of an agent's worktree
P=$1; B=${2:-50}; W=${3:-/tmp/wt_}; L=${4:-"A B"}
for x in $L; do
  [ -f $W$P/_seeded/mutation$x.diff ] || continue
  echo "== $P mutation $x"
  /venv/bin/python /verif/tools/seeded.py confirm $W$P $W$P/_seeded/mutation$x.diff $W$P/_seeded/demo$x.py | tr '\n' ' ' | cut -c1-260; echo
  /venv/bin/python /verif/tools/seeded.py detect $P $W$P/_seeded/mutation$x.diff $B | tail -3
done
