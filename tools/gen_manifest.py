#!/venv/bin/python
"""Generate /verif/MANIFEST.json from dst/registry.py and validate it."""
import json, os, sys
sys.path.insert(0, "/verif"); sys.path.insert(0, "/repo")
import warnings; warnings.simplefilter("ignore")
from dst.manifest_data import CHECKS, NOT_APPLICABLE, NOTES
PY = "/venv/bin/python"
m = {
 "version": 1,
 "setup_cmd": f"{PY} -m compileall -q /verif/dst",
 "hooks": {"guard": "FIBERTREE_VERIF", "enable": "none needed: every seam is reached by rebinding module-level names (open, os, random, FileReadBackwards; os.write for the duration of a dump) inside the simulator process; /repo carries no hook", "baseline_off_cmd": "cd /repo && /venv/bin/python -m pytest -ra -q -p no:cacheprovider --timeout=900 --continue-on-collection-errors", "source_commits": [], "add_only": True},
 "engines": [{"name": "dst", "path": "/verif/dst", "serves_properties": sorted(CHECKS), "kind_free_text": "deterministic simulation with fault injection: seeded scheduler over cooperative tasks (live generators), file/PRNG/session seams, reference models, ddmin shrinker, JSON replay"}],
 "checks": [], "notes": NOTES, "not_applicable": NOT_APPLICABLE}
for pid in sorted(CHECKS):
    c = CHECKS[pid]
    m["checks"].append({
      "property_id": pid,
      "quick_cmd": f"{PY} /verif/dst/check.py {pid} --tier quick",
      "thorough_cmd": f"{PY} /verif/dst/check.py {pid} --tier thorough",
      "evidence_file": f"/verif/evidence/{pid}.json",
      "replay_cmd_template": f"{PY} /verif/dst/check.py {pid} --replay {{path}}",
      "engine": "dst",
      "level_claimed": {"category": c["level"], "text": c["text"], "design_ref": c["design_ref"]},
      "level_note": c["note"],
      "technique": c["technique"]})
json.dump(m, open("/verif/MANIFEST.json", "w"), indent=1)
import subprocess
subprocess.check_call(["python3-vt", "-c", "import json,jsonschema; jsonschema.validate(json.load(open(\"/verif/MANIFEST.json\")), json.load(open(\"/root/.vp/MANIFEST.schema.json\")))"])
print("MANIFEST ok:", len(m["checks"]), "checks,", len(NOT_APPLICABLE), "n/a")
