#!/venv/bin/python
"""Run the pinned test suite (guard off) and compare with /root/.vp/BASELINE.json stable_pass."""
import json, subprocess, sys, tempfile, os, xml.etree.ElementTree as ET
base = json.load(open("/root/.vp/BASELINE.json"))
with tempfile.TemporaryDirectory(dir="/dev/shm") as d:
    x = os.path.join(d, "j.xml")
    env = dict(os.environ); env.pop("FIBERTREE_VERIF", None)
    subprocess.run(["/venv/bin/python", "-m", "pytest", "-ra", "-q", "-p", "no:cacheprovider", "--timeout=900",
                    "--continue-on-collection-errors", f"--junitxml={x}"], cwd="/repo", env=env,
                   stdout=subprocess.DEVNULL, stderr=subprocess.DEVNULL)
    passed = set()
    for tc in ET.parse(x).getroot().iter("testcase"):
        if not any(ch.tag in ("failure", "error", "skipped") for ch in tc):
            passed.add(f"{tc.get('classname')}::{tc.get('name')}")
want = set(base["stable_pass"])
missing = sorted(want - passed)
print(f"baseline stable_pass={len(want)} passed_now={len(passed)} missing={len(missing)} new={len(passed - want)}")
for m in missing[:20]: print("  MISSING", m)
sys.exit(1 if missing else 0)
