#!/bin/bash
# usage: benign_check.sh <diff> <budget> <prop>...   -- apply a behaviour-preserving change in the scratch worktree; every check must stay quiet
D=$1; B=$2; shift 2
WT=/tmp/dst_scratch_repo
[ -d $WT ] || git -C /repo worktree add -q --detach $WT HEAD
(cd $WT && git checkout -q --detach $(git -C /repo rev-parse HEAD) && git checkout -- . && git clean -fdq && git apply $D) || { echo "APPLY-FAILED $D"; exit 2; }
for p in "$@"; do
  out=$(DST_REPO=$WT VERIF_BUDGET_S=$B /venv/bin/python /verif/dst/check.py $p --tier quick --no-evidence 2>&1)
  rc=$?
  echo "$(basename $(dirname $(dirname $D)))/$(basename $D) $p exit=$rc $(echo "$out" | grep -c VIOLATION) violations"
  [ $rc -ne 0 ] && echo "$out" | grep "^{\|VIOLATION\|HARNESS" | head -4
done
(cd $WT && git checkout -- .)
