#!/venv/bin/python
"""archive_seeded.py <PROP> <A|B> <detected:yes|no|after-strengthening> <needs...>  -- copy an agent's mutation into /verif/seeded/"""
import json, os, shutil, sys
prop, x, det = sys.argv[1:4]
needs = " ".join(sys.argv[4:])
src = os.environ.get("SEEDED_SRC", f"/tmp/wt_{prop}/_seeded")
name = os.environ.get("SEEDED_NAME", f"{prop}-{x}")
dst = f"/verif/seeded/{name}"
os.makedirs(dst, exist_ok=True)
shutil.copy(f"{src}/mutation{x}.diff", f"{dst}/patch.diff")
shutil.copy(f"{src}/demo{x}.py", f"{dst}/demo.py")
if os.path.exists(f"{src}/notes.md"):
    shutil.copy(f"{src}/notes.md", f"{dst}/agent_notes.md")
meta = {"id": name, "property": prop, "breaks": prop, "needs_to_manifest": needs,
        "author": "fresh sub-agent given only the property text and a scratch worktree",
        "confirmed": {"how": f"tools/seeded.py confirm /tmp/wt_{prop} patch.diff demo.py (scratch worktree): demo exits 0 without the patch, non-zero with it; pinned suite still 453/453 stable passes with it",
                      "result": "confirmed"},
        "checked_with": f"tools/seeded.py detect {prop} patch.diff (git -C /repo apply; check.py {prop} --tier quick; git -C /repo checkout -- .)",
        "detected_by_quick_check": det}
json.dump(meta, open(f"{dst}/meta.json", "w"), indent=1)
print("archived", dst)
