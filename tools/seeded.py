#!/venv/bin/python
"""Confirm and evaluate one seeded change.

  seeded.py confirm <worktree> <diff> <demo>     in the scratch worktree: demo passes without, fails with; suite still 453
  seeded.py detect  <prop> <diff> [budget_s]      apply to /repo, run the quick check, undo; prints the verdict
"""
import json, os, subprocess, sys, tempfile, xml.etree.ElementTree as ET

def sh(cmd, cwd=None, env=None, timeout=3000):
    return subprocess.run(cmd, shell=True, cwd=cwd, env=env, capture_output=True, text=True, timeout=timeout)

def suite(wt):
    base = json.load(open("/root/.vp/BASELINE.json"))
    with tempfile.TemporaryDirectory(dir="/dev/shm") as d:
        x = os.path.join(d, "j.xml")
        env = dict(os.environ, PYTHONPATH=wt)
        sh(f"/venv/bin/python -m pytest -q -p no:cacheprovider --timeout=900 --continue-on-collection-errors --junitxml={x}", cwd=wt, env=env)
        passed = set()
        for tc in ET.parse(x).getroot().iter("testcase"):
            if not any(ch.tag in ("failure", "error", "skipped") for ch in tc):
                passed.add(f"{tc.get('classname')}::{tc.get('name')}")
    missing = sorted(set(base["stable_pass"]) - passed)
    return len(passed), missing

def confirm(wt, diff, demo):
    env = dict(os.environ, PYTHONPATH=wt)
    assert sh("git status --porcelain --untracked-files=no", cwd=wt).stdout.strip() == "", "worktree dirty"
    r0 = sh(f"/venv/bin/python {demo}", cwd=wt, env=env)
    a = sh(f"git apply {diff}", cwd=wt)
    assert a.returncode == 0, a.stderr
    try:
        r1 = sh(f"/venv/bin/python {demo}", cwd=wt, env=env)
        n, missing = suite(wt)
    finally:
        sh("git checkout -- .", cwd=wt)
        sh("rm -rf tmp", cwd=wt)
    ok = r0.returncode == 0 and r1.returncode != 0 and not missing
    print(json.dumps({"demo_without": r0.returncode, "demo_with": r1.returncode, "suite_passed_with": n,
                      "baseline_missing_with": missing[:5], "confirmed": ok, "demo_with_tail": (r1.stdout + r1.stderr)[-300:]}, indent=1))
    return 0 if ok else 1

def detect_wt(prop, diff, budget="50", wt="/tmp/dst_scratch_repo"):
    """like detect, but in a scratch worktree of /repo (leaves /repo alone)"""
    if not os.path.isdir(wt):
        r = sh(f"git worktree add -q --detach {wt} HEAD", cwd="/repo")
        assert r.returncode == 0, r.stderr
    sh("git checkout -q --detach $(git -C /repo rev-parse HEAD) && git checkout -- . && git clean -fdq", cwd=wt)
    a = sh(f"git apply {diff}", cwd=wt)
    if a.returncode != 0:
        print("APPLY-FAILED", a.stderr[-300:]); return 2
    try:
        env = dict(os.environ, VERIF_BUDGET_S=str(budget), DST_REPO=wt)
        r = sh(f"/venv/bin/python /verif/dst/check.py {prop} --tier quick --no-evidence", env=env)
    finally:
        sh("git checkout -- .", cwd=wt)
    lines = [l for l in r.stdout.splitlines() if l.startswith(("VIOLATION", "{", prop, "HARNESS"))]
    print("\n".join(lines[-6:]))
    print("exit", r.returncode, "=>", "DETECTED" if r.returncode == 1 else ("QUIET" if r.returncode == 0 else "HARNESS"))
    return 0 if r.returncode == 1 else 1


def detect(prop, diff, budget="50"):
    assert sh("git status --porcelain --untracked-files=no", cwd="/repo").stdout.strip() == "", "/repo dirty"
    a = sh(f"git apply {diff}", cwd="/repo")
    if a.returncode != 0:
        print("APPLY-FAILED", a.stderr[-300:]); return 2
    try:
        env = dict(os.environ, VERIF_BUDGET_S=str(budget))
        r = sh(f"/venv/bin/python /verif/dst/check.py {prop} --tier quick --no-evidence", env=env)
    finally:
        sh("git checkout -- .", cwd="/repo")
    lines = [l for l in r.stdout.splitlines() if l.startswith(("VIOLATION", "{", prop, "HARNESS", "KNOWN"))]
    print("\n".join(lines[-8:]))
    print("exit", r.returncode, "=>", "DETECTED" if r.returncode == 1 else "MISSED")
    return 0 if r.returncode == 1 else 1

if __name__ == "__main__":
    if sys.argv[1] == "confirm": sys.exit(confirm(*sys.argv[2:5]))
    if sys.argv[1] == "detect": sys.exit(detect(*sys.argv[2:]))
    if sys.argv[1] == "detect-wt": sys.exit(detect_wt(*sys.argv[2:]))
