#!/venv/bin/python
"""Apply every seeded change in /verif/seeded/<id>/ to /repo in turn, run the quick check of its property, undo.
Writes /verif/seeded/RESULTS.json.  /repo must be clean; nothing else may use /repo meanwhile."""
import json, os, subprocess, sys, time
def sh(cmd, cwd=None, env=None):
    return subprocess.run(cmd, shell=True, cwd=cwd, env=env, capture_output=True, text=True)
assert sh("git status --porcelain --untracked-files=no", cwd="/repo").stdout.strip() == "", "/repo dirty"
budget = sys.argv[1] if len(sys.argv) > 1 else "50"
only = sys.argv[2:] 
res = {}
for d in sorted(os.listdir("/verif/seeded")):
    p = f"/verif/seeded/{d}"
    if not os.path.isdir(p) or not os.path.exists(f"{p}/meta.json") or (only and d not in only):
        continue
    meta = json.load(open(f"{p}/meta.json"))
    prop = meta.get("property_checked", meta["property"])     # (a few changes only touch what another property's check sees)
    a = sh(f"git apply {p}/patch.diff", cwd="/repo")
    if a.returncode != 0:
        res[d] = {"applies": False, "why": a.stderr[-200:]}
        print(d, "DOES-NOT-APPLY", flush=True)
        continue
    t0 = time.time()
    try:
        r = sh(f"/venv/bin/python /verif/dst/check.py {prop} --tier quick --no-evidence", env=dict(os.environ, VERIF_BUDGET_S=budget))
    finally:
        sh("git checkout -- .", cwd="/repo")
    oracle = None
    for ln in r.stdout.splitlines():
        if ln.startswith("{") and '"oracle"' in ln:
            try: oracle = json.loads(ln)["oracle"]
            except Exception: pass
            break
    res[d] = {"applies": True, "exit": r.returncode, "detected": r.returncode == 1, "oracle": oracle, "wall_s": round(time.time() - t0, 1)}
    print(d, "DETECTED" if r.returncode == 1 else f"MISSED(exit {r.returncode})", oracle, res[d]["wall_s"], flush=True)
if only and os.path.exists("/verif/seeded/RESULTS.json"):
    # a partial re-run updates the stored verdicts instead of replacing them
    prev = json.load(open("/verif/seeded/RESULTS.json"))["results"]
    prev.update(res)
    res = dict(sorted(prev.items()))
json.dump({"commit_repo": sh("git log --format=%h -1", cwd="/repo").stdout.strip(), "budget_s": budget, "results": res},
          open("/verif/seeded/RESULTS.json", "w"), indent=1)
n = len(res); k = sum(1 for v in res.values() if v.get("detected"))
print(f"{k}/{n} seeded changes detected")
