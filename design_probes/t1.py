import warnings, os, glob; warnings.simplefilter("ignore")
from fibertree import Tensor, Fiber, Payload, Metrics
os.makedirs("t6",exist_ok=True)
a=Fiber([1,2,3,5],[0,5,6,7],shape=8); a.getRankAttrs().setId("K")
b=Fiber([0,2,3,5],[1,0,1,1],shape=8); b.getRankAttrs().setId("K")
z=Fiber([],[],shape=8); z.getRankAttrs().setId("K")
Metrics.beginCollect("t6/x")
for t in ["iter","intersect_0","intersect_1","intersect_2","intersect_3","populate_0","populate_1","populate_read_0","populate_write_0"]: Metrics.trace("K",t)
for k,(z_ref,(a_val,b_val)) in z << (a & b):
    z_ref += a_val*b_val
Metrics.endCollect()
for f in sorted(glob.glob("t6/*")):
    print(f, open(f).read().split("\n")[1:-1])
print(z, "a positions:", list(enumerate(a.coords)), "b positions:", list(enumerate(b.coords)))
