import warnings, random, itertools, sys, os, glob, traceback, collections; warnings.simplefilter("ignore")
from fibertree import Tensor, Fiber, Payload, Metrics
os.makedirs("t",exist_ok=True)

def dense(spec, vals, shapes):
    # spec: (out_idx, [(name, idx)]) ; vals: name -> dict point->value
    out={}
    idxs=sorted(shapes)
    for pt in itertools.product(*[range(shapes[i]) for i in idxs]):
        env=dict(zip(idxs,pt)); p=1
        for name,idx in spec[1]:
            p*=vals[name].get(tuple(env[i] for i in idx),0)
            if p==0: break
        if p:
            k=tuple(env[i] for i in spec[0]); out[k]=out.get(k,0)+p
    return {k:v for k,v in out.items() if v!=0}

def content(t):
    if not t.ranks: 
        v=t.getRoot().value; return {():v} if v else {}
    out={}
    def rec(f,pt):
        for c,p in zip(f.coords,f.payloads):
            if isinstance(p,Fiber): rec(p,pt+(c,))
            elif p.value!=0: out[pt+(c,)]=p.value
    rec(t.getRoot(),()); return out

class Counts: 
    def __init__(s): s.mul=s.upd=s.add=0; s.bodies=collections.Counter()

def run_kernel(spec, tensors, order, shapes, style="and", counts=None, abort_at=None):
    out_idx, ops = spec
    # swizzle operands
    cur={}
    for name,idx in ops:
        t=tensors[name]; want=[i for i in order if i in idx]
        if want!=list(idx): t=t.swizzleRanks(want)
        cur[name]=(t.getRoot(), want)
    zr=[i for i in order if i in out_idx]
    z=Tensor(rank_ids=zr, shape=[shapes[i] for i in zr])
    zroot=z.getRoot()
    nsteps=[0]
    def level(i, cur, zc):
        if i==len(order):
            prod=None
            for name,_ in ops:
                v=cur[name][0]
                prod = v if prod is None else prod*v
                if prod is not v and counts: counts.mul+=1
            old=zc.value
            zc+=prod
            if counts:
                counts.upd+=1
                if old!=0: counts.add+=1
            return
        v=order[i]
        parts=[n for n,_ in ops if cur[n][1] and cur[n][1][0]==v]
        fibers=[cur[n][0] for n in parts]
        if len(fibers)==1: src=fibers[0]
        elif style=="and":
            src=fibers[0]
            for f in fibers[1:]: src=src & f
        else:
            src=Fiber.intersection(*fibers, style=style)
        is_out = v in out_idx
        it = (zc << src) if is_out else src
        for c,p in it:
            nsteps[0]+=1
            if abort_at is not None and nsteps[0]==abort_at: raise RuntimeError("abort")
            if counts: counts.bodies[v]+=1
            if is_out: zn,sp = p
            else: zn,sp = zc,p
            # unpack sp
            if len(fibers)==1: pl=[sp]
            elif style=="and":
                pl=[]; x=sp
                for _ in range(len(fibers)-1):
                    x,y=x; pl.append(y)
                pl.append(x); pl.reverse()
            else: pl=list(sp)
            if style=="leader-follower" and any(Payload.isEmpty(q) for q in pl): continue
            nc=dict(cur)
            for n,q in zip(parts,pl): nc[n]=(q, cur[n][1][1:])
            level(i+1,nc,zn)
    level(0,cur,zroot)
    return z

FAM=[ (("m",),[("A",("m","k")),("B",("k",))]),            # matvec
      (("m","n"),[("A",("m","k")),("B",("k","n"))]),      # matmul
      ((),[("A",("k",)),("B",("k",))]),                  # dot
      (("m",),[("A",("m",)),("B",("m",))]),              # elementwise
      (("m","n"),[("A",("m",)),("B",("n",))]),           # outer
      (("m",),[("A",("m","k"))]),                        # row reduce
      (("k",),[("A",("m","k"))]),                        # col reduce
      (("m",),[("A",("m","k")),("B",("k","n")),("C",("n",))]),
      (("m","n"),[("A",("m","n")),("B",("m","n"))]),
    ]
def gen(rng):
    spec=rng.choice(FAM)
    idxs=sorted({i for _,idx in spec[1] for i in idx})
    shapes={i:rng.randint(1,4) for i in idxs}
    tensors={}; vals={}
    for name,idx in spec[1]:
        d={}
        dens=rng.choice([0,0.3,0.6,1.0])
        for pt in itertools.product(*[range(shapes[i]) for i in idx]):
            if rng.random()<dens: d[pt]=rng.randint(1,4)
        t=Tensor(rank_ids=list(idx), shape=[shapes[i] for i in idx])
        for pt,v in d.items():
            r=t.getPayloadRef(*pt); r<<=v
        tensors[name]=t; vals[name]=d
    return spec,tensors,vals,shapes,idxs
stats=collections.Counter(); shown=0
for seed in range(int(sys.argv[1])):
    rng=random.Random(seed)
    spec,tensors,vals,shapes,idxs=gen(rng)
    ref=dense(spec,vals,shapes)
    for order in itertools.permutations(idxs):
        for style in ["and","two-finger","leader-follower"]:
            if style!="and" and max(len([1 for _,idx in spec[1] if i in idx]) for i in idxs)<2: continue
            for coll in [False,True]:
                tag=f"{style}/{'on' if coll else 'off'}"
                try:
                    cnt=Counts()
                    if coll:
                        Metrics.beginCollect(f"t/k{seed}")
                        for i in idxs: Metrics.trace(i.upper() if False else i)
                    z=run_kernel(spec,tensors,list(order),shapes,style,cnt)
                    if coll:
                        Metrics.endCollect(); d=Metrics.dump().get("Compute",{})
                        got=(d.get("payload_mul",0),d.get("payload_update",0),d.get("payload_add",0))
                        exp=(cnt.mul,cnt.upd,cnt.add)
                        if got!=exp: stats[tag+" COUNT"]+=1; 
                        from fibertree.model import Compute
                        for i in idxs:
                            fn=f"t/k{seed}-{i}-iter.csv"
                            ni=Compute.numIters(fn) if os.path.exists(fn) else 0
                            if ni!=cnt.bodies[i]:
                                stats[tag+" ITERS"]+=1
                                if shown<6: shown+=1; print("ITERS",seed,spec,order,style,i,ni,cnt.bodies[i])
                    c=content(z)
                    # z ranks order -> map to out_idx order
                    zr=[i for i in order if i in spec[0]]
                    c2={tuple(pt[zr.index(i)] for i in spec[0]):v for pt,v in c.items()}
                    if c2!=ref:
                        stats[tag+" WRONG"]+=1
                        if shown<6: shown+=1; print("WRONG",seed,spec,order,style,coll,c2,ref)
                    else: stats[tag+" ok"]+=1
                except Exception as e:
                    if coll:
                        try: Metrics.endCollect()
                        except Exception: Metrics.traces={}; Metrics.endCollect()
                    stats[tag+" EXC "+type(e).__name__]+=1
                    if shown<6: shown+=1; print("EXC",seed,spec,order,style,coll,traceback.format_exc().splitlines()[-4:])
for f in glob.glob("t/k*"): os.remove(f)
for k,v in sorted(stats.items()): print(v,k)
