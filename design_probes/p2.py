import warnings, os, glob; warnings.simplefilter("ignore")
from fibertree import Tensor, Fiber, Payload, Metrics
from fibertree.model import Compute
os.makedirs("t",exist_ok=True)
def kernel(a,b,abort_at=None):
    z=Tensor(rank_ids=["M","N"], shape=[a.getShape()[0], b.getShape()[1]])
    a_m=a.getRoot(); b_k=b.getRoot(); z_m=z.getRoot()
    n=0
    for m,(z_n,a_k) in z_m << a_m:
        for k,(a_val,b_n) in a_k & b_k:
            for nn,(z_ref,b_val) in z_n << b_n:
                n+=1
                if abort_at is not None and n==abort_at: raise RuntimeError("boom")
                z_ref += a_val*b_val
    return z
a=Tensor.fromRandom(["M","K"],[4,5],[1.0,0.6],seed=3)
b=Tensor.fromRandom(["K","N"],[5,4],[1.0,0.6],seed=4)
def session(prefix, abort_at=None, end=True, ncu=None):
    Metrics.beginCollect(prefix)
    if ncu: Metrics.setNumCachedUses(ncu)
    for r,t in [("M","iter"),("K","iter"),("N","iter"),("K","intersect_0"),("K","intersect_1"),("N","populate_read_0"),("N","populate_write_0"),("N","populate_1"),("M","populate_1")]:
        Metrics.trace(r,t)
    try:
        z=kernel(a,b,abort_at)
    except RuntimeError as e:
        z=None
    if end: Metrics.endCollect()
    return z, Metrics.dump()
z0=kernel(a,b)
z1,d1=session("t/s1")
print(z0==z1, d1)
files=sorted(glob.glob("t/s1-*"))
for f in files: print(f, Compute.numIters(f))
print(open("t/s1-N-iter.csv").read()[:300])
print(open("t/s1-N-populate_write_0.csv").read()[:300])
print(open("t/s1-K-intersect_0.csv").read()[:200])
# aborted session then clean session
z2,d2=session("t/s2",abort_at=5,end=False)
print("aborted: collecting=",Metrics.isCollecting(), Metrics.getIter(), d2)
z3,d3=session("t/s3",ncu=2)
print("same counts:", d3==d1, z3==z0)
for f in files:
    g=f.replace("s1","s3"); print(g, open(f).read()==open(g).read())
