import warnings, os, glob; warnings.simplefilter("ignore")
from fibertree import Tensor, Fiber, Payload, Metrics
os.makedirs("t2",exist_ok=True)
for f in glob.glob("t2/*"): os.remove(f)
A=Tensor.fromUncompressed(["M","K"],[[1,0,2,0],[0,0,0,0],[0,3,0,4]])
B=Tensor.fromUncompressed(["K","N"],[[1,2,0],[0,0,5],[0,6,0],[7,0,0]])
C=Tensor.fromUncompressed(["K"],[1,1,0,1])
Z=Tensor(rank_ids=["M","N"],shape=[3,3])
Metrics.beginCollect("t2/x")
for r in "MKN":
    Metrics.trace(r)
    for ty in ["intersect","populate","populate_read","populate_write","project"]:
        for l in range(6): Metrics.trace(r,f"{ty}_{l}")
for m,(z_n,a_k) in Z.getRoot() << A.getRoot():
    for k,((a_val,b_n),c_val) in (a_k & B.getRoot()) & C.getRoot():
        for n,(z_ref,b_val) in z_n << b_n:
            z_ref += a_val*b_val*c_val
Metrics.endCollect()
for f in sorted(glob.glob("t2/*")):
    rows=open(f).read().splitlines()
    print(f, len(rows)-1, rows[:1], rows[1:4])
print(Z.getRoot())
