import warnings, random, collections; warnings.simplefilter("ignore")
from fibertree import Fiber, Metrics
from fibertree.model import *
def tf_ref(A,B):
    i=j=n=0
    while i<len(A) and j<len(B):
        n+=1
        if A[i]==B[j]: i+=1;j+=1
        elif A[i]<B[j]: i+=1
        else: j+=1
    return n
def sa_ref(A,B):
    # maximal same-side runs + matches, until either exhausted
    i=j=n=0; cur=None
    while i<len(A) and j<len(B):
        if A[i]==B[j]: n+=1; cur=None; i+=1; j+=1
        elif A[i]<B[j]:
            if cur!=0: n+=1; cur=0
            i+=1
        else:
            if cur!=1: n+=1; cur=1
            j+=1
    return n
def run(pairs, boundaries):
    # pairs: list of (A,B) per outer iteration; boundaries: set of outer indices after which we consume
    J=len(pairs)
    j=Fiber(list(range(J)),[1]*J); j.getRankAttrs().setId("J")
    fa=[Fiber(A,[1]*len(A)) for A,B in pairs]; fb=[Fiber(B,[1]*len(B)) for A,B in pairs]
    for f in fa+fb: f.getRankAttrs().setId("K")
    tf=TwoFingerIntersector(); sa=SkipAheadIntersector(); l0=LeaderFollowerIntersector(); l1=LeaderFollowerIntersector()
    Metrics.beginCollect(); Metrics.trace("K","intersect_0",consumable=True); Metrics.trace("K","intersect_1",consumable=True)
    def drain():
        t0=Metrics.consumeTrace("K","intersect_0"); t1=Metrics.consumeTrace("K","intersect_1")
        tf.addTraces(t0,t1); sa.addTraces(t0,t1); l0.addTraces(t0); l1.addTraces(t1)
    for jj,_ in j:
        for _ in fa[jj] & fb[jj]: pass
        if jj in boundaries: drain()
    drain()
    Metrics.endCollect()
    return tf.getNumIntersects(), sa.getNumIntersects(), l0.getNumIntersects(), l1.getNumIntersects()
st=collections.Counter(); shown=0
for seed in range(1500):
    rng=random.Random(seed); J=rng.randint(1,3)
    pairs=[(sorted(rng.sample(range(8),rng.randint(0,5))), sorted(rng.sample(range(8),rng.randint(0,5)))) for _ in range(J)]
    ref_tf=sum(tf_ref(A,B) for A,B in pairs); ref_sa=sum(sa_ref(A,B) for A,B in pairs)
    res={}
    for name,bd in [("each",set(range(J))),("oneshot",set()),("first",{0})]:
        try: res[name]=run(pairs,bd)
        except Exception as e:
            try: Metrics.endCollect()
            except Exception: Metrics.traces={}; Metrics.endCollect()
            res[name]=("EXC",type(e).__name__)
    for name,r in res.items():
        if r[0]=="EXC": st[f"{name} EXC {r[1]}"]+=1; continue
        if r[0]!=ref_tf:
            st[f"{name} tf!=ref"]+=1
            if shown<6: shown+=1; print(name,"TF",pairs,r[0],ref_tf)
        if r[1]!=ref_sa:
            st[f"{name} sa!=ref"]+=1
            if shown<6: shown+=1; print(name,"SA",pairs,r[1],ref_sa)
    if len({r for r in res.values()})>1: st["batching-dependent"]+=1
    st["cases"]+=1
print(dict(st))
