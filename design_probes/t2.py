import warnings, random, os, glob, collections; warnings.simplefilter("ignore")
from fibertree import Tensor, Fiber, Metrics
def rows(fn):
    L=open(fn).read().splitlines()
    if not L: return [],[]
    return L[0].split(","),[list(map(int,l.split(","))) for l in L[1:]]
st=collections.Counter(); shown=0
def say(*a):
    global shown
    if shown<8: shown+=1; print(*a)
for seed in range(400):
    for f in glob.glob("t9/*"): os.remove(f)
    rng=random.Random(seed); M,K,N=rng.randint(1,3),rng.randint(1,4),rng.randint(1,4)
    A=Tensor.fromRandom(["M","K"],[M,K],[rng.choice([0.5,1.0]),rng.choice([0.4,0.8])],seed=seed)
    B=Tensor.fromRandom(["K","N"],[K,N],[rng.choice([0.5,1.0]),rng.choice([0.4,0.8])],seed=seed+1000)
    Z=Tensor(rank_ids=["M","N"],shape=[M,N])
    Metrics.beginCollect("t9/s"); Metrics.setNumCachedUses(rng.choice([2,3,1000]))
    for r in "MKN":
        Metrics.trace(r)
        for ty in ["intersect","populate","populate_read","populate_write"]:
            for l in range(4): Metrics.trace(r,f"{ty}_{l}")
    bodies=collections.Counter()
    for m,(z_n,a_k) in Z.getRoot() << A.getRoot():
        bodies["M"]+=1
        for k,(a_val,b_n) in a_k & B.getRoot():
            bodies["K"]+=1
            for n,(z_ref,b_val) in z_n << b_n:
                bodies["N"]+=1
                z_ref += a_val*b_val
    Metrics.endCollect()
    order=["M","K","N"]
    def check(fn, rank, lookup, strict=False):
        h,R=rows(fn)
        if not h: return
        i=order.index(rank); exp=[r+"_pos" for r in order[:i+1]]+order[:i+1]+["fiber_pos"]
        if h!=exp: st["header"]+=1; say("HDR",fn,h)
        prev=None
        for r in R:
            stamp=tuple(r[:i+1]); pt=r[i+1:2*i+2]; pos=r[-1]
            if prev is not None and (stamp<prev or (strict and stamp<=prev)): st["stamp order "+os.path.basename(fn)]+=1; say("ORD",seed,fn,prev,stamp)
            prev=stamp
            if lookup:
                coords=lookup(pt[:-1])
                if coords is None or pos>=len(coords) or coords[pos]!=pt[-1]: st["pos "+os.path.basename(fn)]+=1; say("POS",seed,fn,r,coords)
        return len(R)
    a_root=A.getRoot(); b_root=B.getRoot()
    def a_k_of(pre): f=a_root.getPayload(pre[0],allocate=False); return f.coords if isinstance(f,Fiber) else None
    def b_n_of(pre): f=b_root.getPayload(pre[1],allocate=False); return f.coords if isinstance(f,Fiber) else None
    def lazy_k(pre):
        a=a_k_of(pre); 
        return sorted(set(a)&set(b_root.coords)) if a is not None else None
    n=check("t9/s-M-iter.csv","M",lambda pre:a_root.coords,True);  st["iterM bad"]+= (n is not None and n!=bodies["M"])
    n=check("t9/s-K-iter.csv","K",lazy_k,True);                    st["iterK bad"]+= (n is not None and n!=bodies["K"])
    n=check("t9/s-N-iter.csv","N",b_n_of,True);                    st["iterN bad"]+= (n is not None and n!=bodies["N"])
    check("t9/s-M-populate_1.csv","M",lambda pre:a_root.coords)
    check("t9/s-K-intersect_0.csv","K",a_k_of)
    check("t9/s-K-intersect_1.csv","K",lambda pre:b_root.coords)
    check("t9/s-N-populate_1.csv","N",b_n_of)
    check("t9/s-N-populate_read_0.csv","N",None)
    check("t9/s-N-populate_write_0.csv","N",None)
    check("t9/s-M-populate_write_0.csv","M",None)
    st["cases"]+=1
print({k:v for k,v in st.items() if v})
