import warnings, os, traceback; warnings.simplefilter("ignore")
from fibertree import Tensor, Fiber, Payload
os.makedirs("t5",exist_ok=True)
def rt(t,tag):
    try:
        t.dump("t5/x.yaml"); u=Tensor.fromYAMLfile("t5/x.yaml")
        print(tag, "eq",u==t, "ids",u.getRankIds()==t.getRankIds(), "shape",u.getShape(),t.getShape(), "name",repr(u.getName()),repr(t.getName()))
    except BaseException as e:
        print(tag,"EXC",type(e).__name__, str(e)[:100])
t=Tensor.fromUncompressed(["M","K"],[[1,0,2],[0,0,0],[0,3,0]],name="A"); rt(t,"2d")
rt(Tensor.fromUncompressed([],5),"rank0")
rt(Tensor(rank_ids=["M","K"],shape=[3,3],name="E"),"empty")
rt(t.flattenRanks(),"flat-tuple")
rt(t.splitUniform(2),"split")
f=Tensor.fromUncompressed(["M"],[1.5,0,2.25]); rt(f,"float")
g=Tensor.fromUncompressed(["M","K"],[[0,0],[0,0]]); rt(g,"allzero")
# fiber-level
fb=Fiber([1,3],[4,5]); fb.dump("t5/f.yaml"); print("fiber", Fiber.fromYAMLfile("t5/f.yaml")==fb)
# seeded random reproducible
import random
a=Tensor.fromRandom(["M","K"],[4,5],[0.8,0.5],seed=7); random.seed(123); random.random(); b=Tensor.fromRandom(["M","K"],[4,5],[0.8,0.5],seed=7); print("seed repro",a==b)
d=Tensor.fromRandom(["M","K"],[3,4],[1.0,1.0],seed=1); print("dense count",d.countValues(), 12)
