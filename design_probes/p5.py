import warnings; warnings.simplefilter("ignore")
from fibertree import Fiber, Metrics
from fibertree.model import *
def run(A,B,reps=1,oneshot=False):
    a=Fiber(A,[1]*len(A)); b=Fiber(B,[1]*len(B)); a.getRankAttrs().setId("K"); b.getRankAttrs().setId("K")
    j=Fiber(list(range(reps)),[1]*reps); j.getRankAttrs().setId("J")
    tf=TwoFingerIntersector(); sa=SkipAheadIntersector(); lf0=LeaderFollowerIntersector()
    Metrics.beginCollect(); Metrics.trace("K","intersect_0",consumable=True); Metrics.trace("K","intersect_1",consumable=True)
    rows=[]
    for _ in j:
        for _ in a & b: pass
        if not oneshot:
            t0=Metrics.consumeTrace("K","intersect_0"); t1=Metrics.consumeTrace("K","intersect_1"); rows.append((t0,t1))
            tf.addTraces(t0,t1); sa.addTraces(list(t0),list(t1)); lf0.addTraces(t0)
    if oneshot:
        t0=Metrics.consumeTrace("K","intersect_0"); t1=Metrics.consumeTrace("K","intersect_1"); rows.append((t0,t1))
        tf.addTraces(t0,t1); sa.addTraces(list(t0),list(t1)); lf0.addTraces(t0)
    Metrics.endCollect()
    return tf.getNumIntersects(), sa.getNumIntersects(), lf0.getNumIntersects(), rows
def twofinger(A,B):
    i=j=n=0
    while i<len(A) and j<len(B):
        n+=1
        if A[i]==B[j]: i+=1;j+=1
        elif A[i]<B[j]: i+=1
        else: j+=1
    return n
for A,B in [([1,3,4],[2,3,5]),([1,2,3],[7,8]),([],[1]),([1,2],[1,2]),([5],[1,2,3,5,9])]:
    r1=run(A,B); r3=run(A,B,3); r3o=run(A,B,3,True)
    print(A,B,"tf/sa/lf:",r1[:3],"x3:",r3[:3],"x3 oneshot:",r3o[:3],"ref tf",twofinger(A,B))
    print("   rows", r1[3][0])
