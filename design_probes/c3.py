import warnings, random, collections, traceback; warnings.simplefilter("ignore")
from fibertree import Tensor, Fiber, Payload
st=collections.Counter(); shown=0
for seed in range(3000):
    rng=random.Random(seed)
    n=rng.randint(0,6); coords=sorted(rng.sample(range(10),n)); vals=[rng.choice([0,1,2,3]) for _ in coords]
    f=Fiber(coords,vals,shape=10)
    before=(list(f.coords),[p.value for p in f.payloads])
    c=rng.randrange(10)
    legal=[p for p in range(len(coords)) if coords[p]<=c]
    exp=dict(zip(coords,vals)).get(c,0)
    exppos=coords.index(c) if c in coords else None
    for sp in [None]+legal:
        try:
            v=f.getPayload(c,start_pos=sp)
            if v!=exp: st["getPayload wrong"]+=1; print("GP",coords,vals,c,sp,v,exp) if shown<5 else None; shown+=1
            p=f.getPosition(c,start_pos=sp)
            if p!=exppos: st["getPosition wrong"]+=1; print("POS",coords,c,sp,p,exppos) if shown<5 else None; shown+=1
            v2=f.getPayload(c,allocate=False,default=77,start_pos=sp)
            if v2!=(dict(zip(coords,vals)).get(c,77)): st["default wrong"]+=1
        except Exception as e:
            st["EXC "+type(e).__name__]+=1
            if shown<8: shown+=1; print("EXC",coords,c,sp,traceback.format_exc().splitlines()[-3:])
    if (list(f.coords),[p.value for p in f.payloads])!=before: st["read mutated"]+=1
    # ref with start_pos
    for sp in [None]+legal:
        g=Fiber(coords,vals,shape=10)
        try:
            r=g.getPayloadRef(c,start_pos=sp); r<<=9
            if g.getPayload(c)!=9 or any(a>=b for a,b in zip(g.coords,g.coords[1:])): st["ref wrong"]+=1; print("REF",coords,c,sp,g) if shown<8 else None; shown+=1
            g2=Fiber(coords,vals,shape=10)
            p=g2.getPositionRef(c,start_pos=sp)
            if g2.coords[p]!=c or any(a>=b for a,b in zip(g2.coords,g2.coords[1:])): st["posref wrong"]+=1; print("POSREF",coords,c,sp,p,g2) if shown<8 else None; shown+=1
        except Exception as e:
            st["REF EXC "+type(e).__name__]+=1
            if shown<8: shown+=1; print("REFEXC",coords,c,sp,traceback.format_exc().splitlines()[-3:])
    st["cases"]+=1
print(dict(st))
