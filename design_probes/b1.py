import warnings, random, os, collections, traceback; warnings.simplefilter("ignore")
from fibertree import Tensor
from fibertree.model import *
os.makedirs("t4",exist_ok=True)
st=collections.Counter(); shown=0
for seed in range(400):
    rng=random.Random(seed)
    M=rng.randint(1,3); J=rng.randint(1,3); K=6
    rows=[]  # loop ranks M, J, K ; tensor B[K] (reused across m, j) or B[J,K]
    use_j=rng.random()<0.5
    for m in range(M):
        for j in range(J):
            ks=sorted(rng.sample(range(K),rng.randint(0,K)))
            for kp,k in enumerate(ks): rows.append((m,j,kp,m,j,k,k))
    if not rows: continue
    fn=f"t4/b{seed}.csv"
    with open(fn,"w") as f:
        f.write("M_pos,J_pos,K_pos,M,J,K,fiber_pos\n")
        for r in rows: f.write(",".join(map(str,r))+"\n")
    if use_j: B=Tensor(rank_ids=["J","K"],shape=[J,K]); spec={"J":{"format":"U","pbits":32},"K":{"format":"U","pbits":32}}
    else: B=Tensor(rank_ids=["K"],shape=[K]); spec={"K":{"format":"U","pbits":32}}
    fmt={"B":Format(B,spec)}
    evict=rng.choice(["root","M","J"])
    epl=rng.choice([1,2,3]); line=32*epl
    bindings=[{"tensor":"B","rank":"K","type":"payload","evict-on":evict}]
    before=set(os.listdir("t4"))
    try:
        bits,ov=Traffic.buffetTraffic(bindings,fmt,{("B","K","payload","read"):fn},10**6,line)
    except Exception as e:
        st["EXC "+type(e).__name__]+=1
        if shown<4: shown+=1; print(seed,traceback.format_exc().splitlines()[-3:])
        continue
    after=set(os.listdir("t4"))
    wlen={"root":0,"M":1,"J":2}[evict]
    pairs=set()
    for r in rows:
        obj=((r[4],) if use_j else ())+(r[6]//epl,)
        pairs.add((obj, r[:wlen]))
    ref=len(pairs)*line
    if bits["B"]["read"]!=ref:
        st["MISMATCH"]+=1
        if shown<6: shown+=1; print(seed,evict,use_j,epl,bits,ref,len(rows))
    else: st["ok"]+=1
    if before!=after: st["tempfiles"]+=1
print(dict(st))
