import warnings, random, collections, traceback; warnings.simplefilter("ignore")
from fibertree import Tensor, Fiber, Payload
def mkT(rng,depth,S,explicit=True,fmtU=False):
    ids=["M","K","N"][:depth]
    def mkf(d):
        n=rng.randint(0,S); cs=sorted(rng.sample(range(S),n)); ps=[]
        for c in cs:
            if d==depth-1: ps.append(rng.choice([0,1,2,3]) if explicit else rng.choice([1,2,3]))
            else: ps.append(mkf(d+1))
        return Fiber(cs,ps,shape=S)
    t=Tensor.fromFiber(ids,mkf(0),shape=[S]*depth)
    if fmtU:
        for i in ids:
            if rng.random()<0.4: t.setFormat(i,"U")
    return t
def content(t):
    out={}
    def rec(f,pt):
        for c,p in zip(f.coords,f.payloads):
            if isinstance(p,Fiber): rec(p,pt+(c,))
            elif p.value!=0: out[pt+(c,)]=p.value
    rec(t.getRoot(),()); return out
def struct(t):
    def rec(f): return [(c, rec(p) if isinstance(p,Fiber) else p.value) for c,p in zip(f.coords,f.payloads)]
    return rec(t.getRoot())
def wf(t):
    errs=[]; D=len(t.ranks); lv=[[] for _ in range(D)]
    def rec(f,d):
        lv[d].append(f)
        if any(a>=b for a,b in zip(f.coords,f.coords[1:])): errs.append("order")
        for p in f.payloads:
            if d<D-1:
                if not isinstance(p,Fiber): errs.append("interior")
                else: rec(p,d+1)
            elif not isinstance(p,Payload): errs.append("leaf")
    rec(t.getRoot(),0)
    for i,r in enumerate(t.ranks):
        if sorted(map(id,r.fibers))!=sorted(map(id,lv[i])): errs.append(f"rank{i} {len(r.fibers)}!={len(lv[i])}")
    return errs
def present(f, U, S):
    # coords a presents
    if U: return list(range(S))
    return [c for c,p in zip(f.coords,f.payloads) if not Payload.isEmpty(p)]
st=collections.Counter(); shown=0
def say(*a):
    global shown
    if shown<8: shown+=1; print(*a)
for seed in range(4000):
    rng=random.Random(seed); depth=rng.randint(1,3); S=rng.randint(1,4)
    z=mkT(rng,depth,S); a=mkT(rng,depth,S,fmtU=rng.random()<0.3)
    model=content(z); a_before=struct(a); z_before=struct(z)
    created=[]  # points newly created & left default
    log=[]
    def pop(zf,af,d,pre):
        U = a.ranks[d].getFormat()=="U"
        exp=present(af,U,S); got=[]
        for c,(zr,av) in zf<<af:
            got.append(c)
            e=wf(z)
            if e: st["WF during"]+=1; say("WFD",seed,e); 
            if d<depth-1:
                act=rng.choice(["desc","desc","skip"])
                log.append((pre+(c,),act))
                if act=="desc":
                    if not isinstance(zr,Fiber) or not isinstance(av,Fiber): st["type"]+=1; say("TYPE",seed,d,type(zr),type(av)); continue
                    pop(zr,av,d+1,pre+(c,))
            else:
                q=pre+(c,)
                if zr.value!=model.get(q,0): st["ref shows wrong value"]+=1; say("REFVAL",seed,q,zr,model.get(q,0))
                act=rng.choice(["add","set","skip","zero"]); log.append((q,act))
                if act=="add": zr+=av; nv=model.get(q,0)+av.value
                elif act=="set": zr<<=7; nv=7
                elif act=="zero": zr<<=0; nv=0
                else: nv=model.get(q,0)
                if nv: model[q]=nv
                else: model.pop(q,None)
        if got!=exp: st["yield seq"]+=1; say("SEQ",seed,d,U,got,exp,af)
    try:
        pop(z.getRoot(),a.getRoot(),0,())
    except Exception as e:
        st["EXC "+type(e).__name__]+=1; say("EXC",seed,depth,[r.getFormat() for r in a.ranks],traceback.format_exc().splitlines()[-3:]); continue
    if struct(a)!=a_before: st["a modified"]+=1; say("AMOD",seed)
    e=wf(z); 
    if e: st["WF after"]+=1; say("WFA",seed,e)
    if content(z)!=model: st["content"]+=1; say("CONTENT",seed,content(z),model,log)
    e=wf(a)
    if e: st["a WF"]+=1; say("AWF",seed,e)
    st["cases"]+=1
print(dict(st))
