import warnings, random, copy, collections, traceback; warnings.simplefilter("ignore")
from fibertree import Tensor, Fiber, Payload
from fibertree.core.rank import Rank
from fibertree.core.rank_attrs import RankAttrs
def ids(t):
    s={}
    def add(o,tag): s[id(o)]=tag
    def rec(f):
        add(f,"fiber"); add(f.coords,"coords"); add(f.payloads,"payloads"); add(f._rank_attrs,"fattrs")
        for p in f.payloads:
            if isinstance(p,Fiber): rec(p)
            else: add(p,"payload")
    if isinstance(t,Tensor):
        for r in t.ranks: add(r,"rank"); add(r._attrs,"attrs"); add(r.fibers,"fiberlist")
        add(t.ranks,"ranklist"); rec(t.getRoot())
    else: rec(t)
    return s
def snap(t):
    def rec(f): return (tuple(f.coords), tuple(rec(p) if isinstance(p,Fiber) else ("P",p.value) for p in f.payloads), f._active_range)
    if isinstance(t,Tensor):
        return (tuple(t.getRankIds()), tuple(t.getShape(authoritative=False) or []), rec(t.getRoot()), tuple(tuple(sorted(map(id,r.fibers))) for r in t.ranks), tuple((r.getFormat(), repr(r.getDefault())) for r in t.ranks))
    return rec(t)
def mk(rng,depth):
    ids_=["M","K","N"][:depth]; S=[rng.randint(2,5) for _ in ids_]
    t=Tensor(rank_ids=ids_,shape=S)
    for _ in range(rng.randint(0,10)):
        pt=[rng.randrange(s) for s in S]; r=t.getPayloadRef(*pt)
        if rng.random()<0.8: r<<=rng.randint(1,5)
    return t
OPS={
 "splitUniform": lambda t,rng,d: t.splitUniform(rng.randint(1,3),depth=rng.randrange(d)),
 "splitEqual": lambda t,rng,d: t.splitEqual(rng.randint(1,3),depth=rng.randrange(d)),
 "splitNonUniform": lambda t,rng,d: t.splitNonUniform([0,rng.randint(1,3)],depth=rng.randrange(d)),
 "splitUnEqual": lambda t,rng,d: t.splitUnEqual([1,2],depth=rng.randrange(d)),
 "truediv": lambda t,rng,d: t/2, "floordiv": lambda t,rng,d: t//2,
 "swizzle": lambda t,rng,d: t.swizzleRanks(rng.sample(t.getRankIds(),d)),
 "swap": lambda t,rng,d: t.swapRanks(rng.randrange(d-1)) if d>1 else None,
 "flatten": lambda t,rng,d: t.flattenRanks(depth=0,levels=rng.randint(1,d-1),coord_style=rng.choice(["tuple","pair","linear"])) if d>1 else None,
 "flat+unflat": lambda t,rng,d: t.flattenRanks(depth=0,levels=1).unflattenRanks(depth=0,levels=1) if d>1 else None,
 "merge": lambda t,rng,d: t.mergeRanks(depth=0,levels=1,coord_style=rng.choice(["absolute","relative"])) if d>1 else None,
 "updCoords": lambda t,rng,d: t.updateCoords(lambda i,c,p:c+1, depth=0),
 "updPayloads": lambda t,rng,d: t.updatePayloads(lambda i,c,p:p+1, depth=d-1),
 "deepcopy": lambda t,rng,d: copy.deepcopy(t),
 "fiber+": lambda t,rng,d: t.getRoot()+t.getRoot() if d==1 else None,
 "fiber*2": lambda t,rng,d: t.getRoot()*2 if d==1 else None,
 "fibercopy": lambda t,rng,d: t.getRoot().copy(),
}
st=collections.Counter(); shown=0
for seed in range(400):
    rng=random.Random(seed); d=rng.randint(1,3); t=mk(rng,d)
    for name,op in OPS.items():
        b=snap(t); ib=ids(t)
        try: r=op(t,rng,d)
        except Exception as e:
            st[name+" EXC "+type(e).__name__]+=1
            if snap(t)!=b: st[name+" EXC+CHANGED"]+=1
            continue
        if r is None: continue
        if snap(t)!=b:
            st[name+" OPERAND CHANGED"]+=1
            if shown<5: shown+=1; print(name,seed,b,snap(t))
        sh=set(ib)&set(ids(r))
        if sh: st[name+" ALIAS "+",".join(sorted({ib[x] for x in sh}))]+=1
        else: st[name+" ok"]+=1
for k,v in sorted(st.items()): print(v,k)
