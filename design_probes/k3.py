import warnings, random, itertools, sys, collections, traceback; warnings.simplefilter("ignore")
exec(open("k1.py").read().split("FAM=[")[0])   # reuse helpers (dense, content, run_kernel)
from fibertree import Metrics
FAM=[ (("m",),[("A",("m","k")),("B",("k",))]), (("m","n"),[("A",("m","k")),("B",("k","n"))]), ((),[("A",("k",)),("B",("k",))]),
      (("m",),[("A",("m",)),("B",("m",))]), (("k",),[("A",("m","k"))]), (("m","n"),[("A",("m","n")),("B",("m","n"))]) ]
stats=collections.Counter(); shown=0
for seed in range(int(sys.argv[1])):
    rng=random.Random(seed)
    spec=rng.choice(FAM)
    idxs=sorted({i for _,idx in spec[1] for i in idx})
    shapes={i:rng.randint(1,5) for i in idxs}
    tensors={}; vals={}
    for name,idx in spec[1]:
        d={}; dens=rng.choice([0,0.3,0.6,1.0])
        for pt in itertools.product(*[range(shapes[i]) for i in idx]):
            if rng.random()<dens: d[pt]=rng.randint(1,4)
        t=Tensor(rank_ids=list(idx), shape=[shapes[i] for i in idx])
        for pt,v in d.items():
            r=t.getPayloadRef(*pt); r<<=v
        tensors[name]=t; vals[name]=d
    ref=dense(spec,vals,shapes)
    x=rng.choice(idxs); step=rng.randint(1,shapes[x])
    # tile rank x in all operands
    spec2_ops=[]; t2={}
    for name,idx in spec[1]:
        if x in idx:
            t2[name]=tensors[name].splitUniform(step, depth=idx.index(x))
            nidx=tuple(j for i in idx for j in ((x+".1",x+".0") if i==x else (i,)))
        else:
            t2[name]=tensors[name]; nidx=idx
        spec2_ops.append((name,nidx))
    out2=tuple(j for i in spec[0] for j in ((x+".1",x+".0") if i==x else (i,)))
    spec2=(out2,spec2_ops)
    idx2=[j for i in idxs for j in ((x+".1",x+".0") if i==x else (i,))]
    shapes2=dict(shapes); shapes2[x+".1"]=shapes[x]; shapes2[x+".0"]=shapes[x]
    for order in itertools.permutations(idx2):
        if order.index(x+".1")>order.index(x+".0"): continue
        for coll in [False,True]:
          try:
            if coll:
                Metrics.beginCollect("t/tile"); 
            z=run_kernel(spec2,t2,list(order),shapes2,"and")
            if coll: Metrics.endCollect()
            c=content(z); zr=[i for i in order if i in out2]
            c2={}
            for pt,v in c.items():
                env=dict(zip(zr,pt)); k=tuple(env[x+".0"] if i==x else env[i] for i in spec[0]); c2[k]=c2.get(k,0)+v
            if c2!=ref:
                stats[f"WRONG coll={coll}"]+=1
                if shown<5: shown+=1; print("WRONG",seed,spec,x,step,order,c2,ref)
            else: stats[f"ok coll={coll}"]+=1
          except Exception as e:
            if coll:
                try: Metrics.endCollect()
                except Exception: pass
            stats[f"EXC coll={coll} "+type(e).__name__]+=1
            if shown<5: shown+=1; print("EXC",seed,spec,x,step,order,traceback.format_exc().splitlines()[-4:])
for k,v in sorted(stats.items()): print(v,k)
