import warnings, random, os, collections, traceback, glob; warnings.simplefilter("ignore")
from fibertree import Tensor, Metrics
from fibertree.model import *
os.makedirs("t7",exist_ok=True)
def rows(fn):
    L=open(fn).read().splitlines()
    if not L: return [],[]
    h=L[0].split(","); return h,[list(map(int,l.split(","))) for l in L[1:]]
st=collections.Counter(); shown=0
for seed in range(300):
    for f in glob.glob("t7/*"): os.remove(f)
    rng=random.Random(seed); M,K,N=rng.randint(1,3),rng.randint(1,4),rng.randint(2,5)
    A=Tensor.fromRandom(["M","K"],[M,K],[1.0,rng.choice([0.4,0.8])],seed=seed)
    B=Tensor.fromRandom(["K","N"],[K,N],[1.0,rng.choice([0.4,0.8])],seed=seed+1000)
    Z=Tensor(rank_ids=["M","N"],shape=[M,N])
    Metrics.beginCollect("t7/s")
    for t in ["iter","populate_read_0","populate_write_0","populate_1"]: Metrics.trace("N",t)
    for m,(z_n,a_k) in Z.getRoot() << A.getRoot():
        for k,(a_val,b_n) in a_k & B.getRoot():
            for n,(z_ref,b_val) in z_n << b_n:
                z_ref += a_val*b_val
    Metrics.endCollect()
    rfn,wfn="t7/s-N-populate_read_0.csv","t7/s-N-populate_write_0.csv"
    if not os.path.exists(rfn) or os.path.getsize(rfn)==0: st["no trace"]+=1; continue
    h,R=rows(rfn); _,W=rows(wfn)
    nr=3
    # stable merge by stamp; ties: read first
    comb=[]; i=j=0
    while i<len(R) or j<len(W):
        if j<len(W) and (i>=len(R) or tuple(W[j][:nr])<tuple(R[i][:nr])): comb.append((W[j],True)); j+=1
        else: comb.append((R[i],False)); i+=1
    evict=rng.choice(["root","M","K"]); wlen={"root":0,"M":1,"K":2}[evict]
    epl=rng.choice([1,2]); line=32*epl
    # Z ranks M,N -> mask loop ranks M,K,N -> (M, N-line)
    first={}; haswrite={}
    for r,isw in comb:
        pos=r[2*nr]; obj=(r[nr+0], pos//epl)   # M coord, line
        key=(obj,tuple(r[:wlen]))
        if key not in first: first[key]=isw
        if isw and pos<N: haswrite[key]=True
    ref_read=sum(1 for k,v in first.items() if not v)*line
    ref_write=sum(1 for k in first if haswrite.get(k))*line
    fmt={"Z":Format(Z,{"M":{"format":"U","pbits":32},"N":{"format":"C","cbits":32,"pbits":32}})}
    bindings=[{"tensor":"Z","rank":"N","type":"payload","evict-on":evict}]
    before=set(os.listdir("t7"))
    try:
        bits,ov=Traffic.buffetTraffic(bindings,fmt,{("Z","N","payload","read"):rfn,("Z","N","payload","write"):wfn},10**6,line)
    except Exception as e:
        st["EXC "+type(e).__name__]+=1
        if shown<3: shown+=1; print(seed,traceback.format_exc().splitlines()[-3:])
        continue
    if set(os.listdir("t7"))!=before: st["temp left"]+=1
    got=(bits["Z"]["read"],bits["Z"]["write"])
    if got!=(ref_read,ref_write):
        st["MISMATCH"]+=1
        if shown<6: shown+=1; print(seed,evict,epl,got,(ref_read,ref_write),len(R),len(W))
    else: st["ok"]+=1
print(dict(st))
