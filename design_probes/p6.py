import warnings, random, os; warnings.simplefilter("ignore")
from fibertree import Fiber, Metrics, Tensor
from fibertree.model import *
os.makedirs("t",exist_ok=True)
def belady(seq,cap):
    # MIN with bypass: count fills
    n=len(seq); nxt=[None]*n; last={}
    for i in range(n-1,-1,-1):
        nxt[i]=last.get(seq[i],float("inf")); last[seq[i]]=i
    cache={} ; fills=0
    for i,x in enumerate(seq):
        if x in cache:
            cache[x]=nxt[i]; 
            if nxt[i]==float("inf"): del cache[x]
            continue
        fills+=1
        if nxt[i]==float("inf"): continue
        if len(cache)<cap: cache[x]=nxt[i]
        elif cap>0:
            far=max(cache,key=lambda k:cache[k])
            if cache[far]>nxt[i]:
                del cache[far]; cache[x]=nxt[i]
    return fills
def run(seed):
    rng=random.Random(seed)
    M=rng.randint(1,4); K=6
    # trace over loop ranks M,K: tensor B has rank K only -> reuse across m
    rows=[]
    for m in range(M):
        ks=sorted(rng.sample(range(K),rng.randint(0,K)))
        for kp,k in enumerate(ks):
            rows.append((m,kp,m,k,k))   # pos==coord (uncompressed-like)
    fn=f"t/c{seed}.csv"
    with open(fn,"w") as f:
        f.write("M_pos,K_pos,M,K,fiber_pos\n")
        for r in rows: f.write(",".join(map(str,r))+"\n")
    B=Tensor(rank_ids=["K"],shape=[K])
    fmt={"B":Format(B,{"K":{"format":"U","pbits":32}})}
    bindings=[{"tensor":"B","rank":"K","type":"payload"}]
    epl=rng.choice([1,2]); cap_lines=rng.randint(0,4)
    line=32*epl
    before=set(os.listdir("t"))
    bits,ov=Traffic.cacheTraffic(bindings,fmt,{("B","K","payload","read"):fn},cap_lines*line,line)
    after=set(os.listdir("t"))
    seq=[r[4]//epl for r in rows]
    ref=belady(seq,cap_lines)*line
    got=bits["B"]["read"] if rows else bits
    return got,ref,before==after,(M,epl,cap_lines,seq)
bad=0
for s in range(300):
    try:
        got,ref,same,info=run(s)
    except Exception as e:
        print(s,"EXC",repr(e)); bad+=1; continue
    if got!=ref or not same:
        bad+=1
        if bad<8: print(s,got,ref,same,info)
print("bad",bad)
