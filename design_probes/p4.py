import warnings, os, time, random, sys, traceback, collections; warnings.simplefilter("ignore")
from fibertree import Tensor, Fiber, Payload, Metrics, CoordPayload
from fibertree.core.fiber import CoordinateError

def walk(root):
    lv=[]
    def rec(f,d):
        while len(lv)<=d: lv.append([])
        lv[d].append(f)
        for p in f.payloads:
            if isinstance(p,Fiber): rec(p,d+1)
    rec(root,0); return lv
def wf(t):
    errs=[]
    depth=len(t.ranks)
    def rec(f,d):
        if len(f.coords)!=len(f.payloads): errs.append("len")
        for x,y in zip(f.coords,f.coords[1:]):
            if not x<y: errs.append(f"order d{d} {f.coords}")
        for p in f.payloads:
            if d<depth-1:
                if not isinstance(p,Fiber): errs.append(f"interior nonfiber d{d} {p!r}")
                else: rec(p,d+1)
            else:
                if not isinstance(p,Payload): errs.append(f"leaf unboxed {p!r}")
                elif isinstance(p.value,(Payload,Fiber)): errs.append("double box")
    rec(t.getRoot(),0)
    lv=walk(t.getRoot())
    for i,r in enumerate(t.ranks):
        a=sorted(id(f) for f in r.getFibers()); b=sorted(id(f) for f in (lv[i] if i<len(lv) else []))
        if a!=b: errs.append(f"rank{i} list {len(a)} vs walk {len(b)}")
        for f in (lv[i] if i<len(lv) else []):
            if f.getOwner() is not r: errs.append(f"owner rank{i}")
    return errs
def content(t):
    out={}
    d=len(t.ranks)
    def rec(f,pt):
        for c,p in zip(f.coords,f.payloads):
            if isinstance(p,Fiber): rec(p,pt+(c,))
            else:
                if p.value!=0: out[pt+(c,)]=p.value
    rec(t.getRoot(),()); return out

def run(seed, nops=30):
    rng=random.Random(seed)
    depth=rng.choice([1,2,3]); ids=["M","K","N"][:depth]; S=5
    t=Tensor(rank_ids=ids, shape=[S]*depth); model={}
    log=[]
    def chk(tag):
        e=wf(t)
        if e: return (tag,"WF",e[:3])
        c=content(t)
        if c!=model: return (tag,"MODEL",{k:(c.get(k),model.get(k)) for k in set(c)|set(model) if c.get(k)!=model.get(k)})
    for i in range(nops):
        op=rng.choice(["ref+=","ref<<=","get","getpart","eq","or","clear_leafish","append","setitem","populate","itershaperef","ilshift"])
        pt=tuple(rng.randrange(S) for _ in range(depth))
        log.append((op,pt))
        try:
            if op=="ref+=":
                v=rng.randrange(1,4); r=t.getPayloadRef(*pt); r+=v; model[pt]=model.get(pt,0)+v
            elif op=="ref<<=":
                v=rng.randrange(0,3); r=t.getPayloadRef(*pt); r<<=v
                if v: model[pt]=v
                else: model.pop(pt,None)
            elif op=="get":
                v=t.getPayload(*pt)
                if v!=model.get(pt,0): return (log,"GET",v,model.get(pt,0))
            elif op=="getpart" and depth>1:
                k=rng.randrange(1,depth); f=t.getPayload(*pt[:k])
                if not isinstance(f,Fiber): return (log,"GETPART type")
            elif op=="eq":
                t2=Tensor(rank_ids=ids, shape=[S]*depth)
                for q,v in list(model.items())[:rng.randrange(0,4)]:
                    r=t2.getPayloadRef(*q); r+=v
                _ = (t==t2)
            elif op=="or" and depth>1:
                f=t.getPayload(pt[0]); g=t.getPayload(pt[1] if depth>1 else 0)
                for _ in f|g: pass
            elif op=="append":
                # append at leaf fiber of path
                f=t.getRoot()
                ok=True
                for c in pt[:-1]:
                    f=f.getPayload(c, allocate=False)
                    if f is None: ok=False;break
                if ok:
                    c=rng.randrange(S+2); v=rng.randrange(1,4)
                    try:
                        f.append(c,v); model[pt[:-1]+(c,)]=v
                    except AssertionError: pass
            elif op=="setitem":
                f=t.getRoot(); ok=True
                for c in pt[:-1]:
                    f=f.getPayload(c, allocate=False)
                    if f is None: ok=False;break
                if ok and len(f)>0:
                    pos=rng.randrange(-1,len(f)+1); nc=rng.randrange(S+2); v=rng.randrange(0,4)
                    oldc=f.coords[pos] if -len(f)<=pos<len(f) else None
                    try:
                        f[pos]=CoordPayload(nc,v)
                        model.pop(pt[:-1]+(oldc,),None)
                        if v: model[pt[:-1]+(nc,)]=v
                        else: model.pop(pt[:-1]+(nc,),None)
                    except (CoordinateError,IndexError): pass
            elif op=="populate":
                # source tensor random
                src=Tensor(rank_ids=ids, shape=[S]*depth); sm={}
                for _ in range(rng.randrange(0,6)):
                    q=tuple(rng.randrange(S) for _ in range(depth)); r=src.getPayloadRef(*q); v=rng.randrange(1,4); r<<=v; sm[q]=v
                def pop(z,a,d,pre):
                    for c,(zr,av) in z<<a:
                        if d<depth-1:
                            act=rng.choice(["desc","desc","skip","abort"])
                            if act=="desc": pop(zr,av,d+1,pre+(c,))
                            elif act=="abort": raise KeyError
                        else:
                            act=rng.choice(["add","set","skip","zero","abort"])
                            q=pre+(c,)
                            if act=="add": zr+=av; model[q]=model.get(q,0)+av.value
                            elif act=="set": zr<<=7; model[q]=7
                            elif act=="zero": zr<<=0; model.pop(q,None)
                            elif act=="abort": raise KeyError
                try: pop(t.getRoot(),src.getRoot(),0,())
                except KeyError: log.append("aborted")
                if content(src)!=sm: return (log,"SRC MODIFIED")
                e=wf(src)
                if e: return (log,"SRC WF",e)
            elif op=="itershaperef":
                f=t.getRoot(); ok=True
                for c in pt[:-1]:
                    f=f.getPayload(c, allocate=False)
                    if f is None: ok=False;break
                if ok:
                    for c,p in f.iterShapeRef():
                        if rng.random()<0.3: p+=1; q=pt[:-1]+(c,); model[q]=model.get(q,0)+1
            elif op=="ilshift":
                pass
        except Exception as ex:
            return (log,"EXC",repr(ex),traceback.format_exc().splitlines()[-3:])
        r=chk(op)
        if r: return (log,)+r
    return None
fails=collections.Counter(); ex={}
for s in range(int(sys.argv[1])):
    r=run(s)
    if r:
        key=(r[1] if isinstance(r[1],str) else r[2]); 
        k2=str(r[1:3])[:80]
        fails[k2]+=1; ex.setdefault(k2,(s,r))
for k,v in fails.most_common(): print(v,k, "\n   ", ex[k][0], str(ex[k][1])[-700:])
