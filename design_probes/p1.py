import warnings; warnings.simplefilter("ignore")
from fibertree import Tensor, Fiber, Payload, Metrics
def walk(t):
    lv=[]
    def rec(f,d):
        while len(lv)<=d: lv.append([])
        lv[d].append(f)
        for p in f.payloads:
            if isinstance(p,Fiber): rec(p,d+1)
    rec(t.getRoot(),0); return lv
def ranks_ok(t):
    lv=walk(t)
    res=[]
    for i,r in enumerate(t.ranks):
        a=sorted(id(f) for f in r.getFibers()); b=sorted(id(f) for f in (lv[i] if i<len(lv) else []))
        res.append(a==b)
    return res, [len(r.getFibers()) for r in t.ranks], [len(x) for x in lv]

a=Tensor.fromUncompressed(["M","K"],[[1,0,2],[0,0,0],[0,3,0]])
b=Tensor.fromUncompressed(["M","K"],[[0,0,0],[0,4,0],[0,3,0]])
print("before", ranks_ok(a), ranks_ok(b))
print("eq", a==b)
print("after eq", ranks_ok(a), ranks_ok(b))
for c,(m,x,y) in a.getRoot() | b.getRoot(): pass
print("after or", ranks_ok(a), ranks_ok(b))
for c,(m,x,y) in a.getRoot() ^ b.getRoot(): pass
print("after xor", ranks_ok(a), ranks_ok(b))
print(a.getRoot().uncompress())
print("after uncompress", ranks_ok(a))
# clear
c=Tensor.fromUncompressed(["M","K"],[[1,0,2],[0,0,0],[0,3,0]])
c.getRoot().clear(); print("after clear", ranks_ok(c))
# ilshift
d=Tensor.fromUncompressed(["M","K"],[[1,0,2],[0,0,0],[0,3,0]])
r=d.getRoot(); r<<=b.getRoot(); print("after <<=", ranks_ok(d), d.getRoot())
# getPayloadRef
e=Tensor(rank_ids=["M","K","N"]); e.getPayloadRef(1,2,3); x=e.getPayloadRef(1,2,4); x+=5; print("ref", ranks_ok(e), e.getRoot())
# populate with break
z=Tensor(rank_ids=["M","K"]); 
for m,(z_k,a_k) in z.getRoot() << a.getRoot():
    for k,(z_ref,a_val) in z_k << a_k:
        break
    break
print("break", ranks_ok(z), z.getRoot())
import gc; gc.collect()
