import warnings, os, glob, builtins, random, collections; warnings.simplefilter("ignore")
from fibertree import Tensor, Fiber, Payload, Metrics
import fibertree.core.metrics as MM
os.makedirs("t3",exist_ok=True)
class FS:
    def __init__(s): s.n=0; s.fail_at=None; s.log=[]
    def open(s,path,mode="r",*a,**k):
        s.n+=1; s.log.append((s.n,"open",path,mode))
        if s.fail_at==s.n: raise OSError(28,"ENOSPC sim")
        f=builtins.open(path,mode,*a,**k); fs=s
        class W:
            def __enter__(w): return w
            def __exit__(w,*e): f.close(); return False
            def write(w,data):
                fs.n+=1; fs.log.append((fs.n,"write",path,len(data)))
                if fs.fail_at==fs.n: raise OSError(28,"ENOSPC sim")
                return f.write(data)
            def __getattr__(w,name): return getattr(f,name)
        return W()
fs=FS(); MM.open=fs.open
A=Tensor.fromRandom(["M","K"],[4,5],[1.0,0.6],seed=3); B=Tensor.fromRandom(["K","N"],[5,4],[1.0,0.6],seed=4)
def kernel(abort_at=None):
    z=Tensor(rank_ids=["M","N"],shape=[4,4]); n=0
    for m,(z_n,a_k) in z.getRoot() << A.getRoot():
        for k,(a_val,b_n) in a_k & B.getRoot():
            for nn,(z_ref,b_val) in z_n << b_n:
                n+=1
                if n==abort_at: raise KeyError("body")
                z_ref += a_val*b_val
    return z
REG=[("M","iter"),("K","iter"),("N","iter"),("K","intersect_0"),("K","intersect_1"),("N","populate_read_0"),("N","populate_write_0"),("N","populate_1"),("M","populate_1")]
def session(prefix, reg, ncu, abort_at=None, fail_at=None, end=True):
    fs.n=0; fs.fail_at=fail_at; fs.log=[]
    Metrics.beginCollect(prefix); Metrics.setNumCachedUses(ncu)
    for r,t in reg: Metrics.trace(r,t)
    err=None
    try: z=kernel(abort_at)
    except (KeyError,OSError) as e: err=e; z=None
    if end:
        try: Metrics.endCollect()
        except OSError as e: err=("end",e)
    files={p for (_,op,p,m) in [x for x in fs.log if x[1]=="open"]}
    return z, dict(Metrics.dump() or {}), {p:open(p).read() for p in files if os.path.exists(p)}, err
base=session("t3/base",REG,1000)
nevents=fs.n; print("file events in clean session:",nevents)
rng=random.Random(1); bad=collections.Counter()
for trial in range(300):
    # history
    for h in range(rng.randint(0,3)):
        reg=rng.sample(REG,rng.randint(0,len(REG)))
        kind=rng.choice(["ok","abort","abort_noend","oserr","oserr_noend"])
        session("t3/base" if rng.random()<0.5 else "t3/h", reg, rng.choice([2,3,5,1000]),
                abort_at=rng.randint(1,30) if "abort" in kind else None,
                fail_at=rng.randint(1,40) if "oserr" in kind else None,
                end=not kind.endswith("noend"))
    z,d,files,err=session("t3/base",REG,rng.choice([2,3,5,7,1000]))
    if err: bad["err"]+=1; print(err)
    if d!=base[1]: bad["counts"]+=1
    if files!=base[2]: bad["files"]+=1; 
    if z!=base[0]: bad["z"]+=1
print(dict(bad) or "all isolated")
