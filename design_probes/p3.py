import warnings, os, time, random; warnings.simplefilter("ignore")
import fibertree
from fibertree import Tensor, Fiber, Payload, Metrics
import fibertree.core.metrics as M, fibertree.model.traffic as T
# monkeypatch open in module globals
calls=[]
import builtins
def myopen(*a,**k):
    calls.append(a); return builtins.open(*a,**k)
M.open=myopen
os.makedirs("t",exist_ok=True)
Metrics.beginCollect("t/x"); Metrics.trace("K"); 
f=Fiber([1,2,3],[4,5,6]); f.getRankAttrs().setId("K")
for c,p in f: pass
Metrics.endCollect()
print(calls)
# fork cost
t=time.time()
for i in range(50):
    pid=os.fork()
    if pid==0: os._exit(0)
    os.waitpid(pid,0)
print("fork ms", (time.time()-t)/50*1000)
# op speed
rng=random.Random(1)
t=time.time(); n=0
T0=Tensor(rank_ids=["M","K","N"])
for i in range(20000):
    p=(rng.randrange(6),rng.randrange(6),rng.randrange(6))
    r=T0.getPayloadRef(*p); r+=rng.randrange(1,5); n+=1
    T0.getPayload(*p)
print("ops/s", 2*n/(time.time()-t))
import copy
t=time.time()
for i in range(200): copy.deepcopy(T0)
print("deepcopy ms", (time.time()-t)/200*1000, T0.countValues())
