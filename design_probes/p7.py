import warnings, time; warnings.simplefilter("ignore")
from fibertree import Tensor, Fiber, TensorImage, TreeImage, UncompressedImage
t=Tensor.fromUncompressed(["M","K"],[[1,0,2],[0,0,0],[0,3,0]])
def rl(t): return [len(r.getFibers()) for r in t.ranks]
print(rl(t))
for style in ["tree","uncompressed","tree+uncompressed"]:
    t0=time.time(); a=TensorImage(t,style=style).im.tobytes(); b=TensorImage(t,style=style).im.tobytes(); print(style, a==b, len(a), (time.time()-t0)/2, rl(t))
t3=Tensor.fromUncompressed(["M","K","N"],[[[1,0],[0,2]],[[0,0],[0,0]]])
for style in ["tree","uncompressed"]:
    a=TensorImage(t3,style=style).im.tobytes(); print(style, rl(t3))
e=Tensor(rank_ids=["M","K"]); 
try:
    a=TensorImage(e,style="tree+uncompressed").im.tobytes(); print("empty ok", rl(e))
except Exception as ex: print("empty exc",repr(ex))
