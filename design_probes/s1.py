import warnings, os; warnings.simplefilter("ignore")
from fibertree import Fiber, Metrics
from fibertree.model import Compute
def sess(outer, inner):
    j=Fiber(outer,[1]*len(outer)); j.getRankAttrs().setId("J")
    k=Fiber(inner,[1]*len(inner)); k.getRankAttrs().setId("K")
    Metrics.beginCollect("t8/p"); Metrics.trace("K"); Metrics.trace("J")
    for _ in j:
        for _ in k: pass
    Metrics.endCollect()
    return {f:open("t8/"+f).read() for f in sorted(os.listdir("t8"))}
for f in os.listdir("t8"): os.remove("t8/"+f)
print("pristine, outer empty:", sess([], [1,2]))
for f in os.listdir("t8"): os.remove("t8/"+f)
print("after a full session:", {k:len(v.splitlines()) for k,v in sess([0,1],[1,2]).items()})
r=sess([], [1,2]); print("then outer empty, same prefix:", {k:len(v.splitlines()) for k,v in r.items()}, "numIters K =", Compute.numIters("t8/p-K-iter.csv"))
